"""C10 - value-dependent methods run exactly when their condition holds.

Generated: mixtures of Dependent[bound, pred] (predicates with known truth tables, total on their bound,
some raising on foreign types), Literal and plain-class methods; bounds at different heights; priorities;
1-2 dispatched positions, keyword-only dependent parameters, functions / methods; set sizes on both sides
of every strategy switch of the generated dependent dispatcher (1 handler, 2-3, >=4, several positions).
Oracle: vlib.model.resolve over the methods whose static part AND condition accept the values, with the
documented order (a dependent type is below its bound and everything comparable with it; two dependents
on the same bound are unordered => ambiguous when both hold).  Where the model needs an unspecified
comparison only the weaker facts are asserted: the body that ran holds, a holding method exists => not
'No method'.  Predicates log every value they are asked about: each must be an instance of the bound.
"""
import sys

from vlib import boot  # noqa: F401
from vlib import gen as G
from vlib import hier as H
from vlib import model as M
from vlib import runner as R
from vlib import spec as S
from vlib.prog import Program

RAISING = {"pos", "neg", "zero", "nonneg", "even", "big", "len2", "short", "named_even"}


def case_strategy():
    from hypothesis import strategies as st

    @st.composite
    def _case(draw):
        if draw(st.integers(0, 4)) == 0:
            return draw(G.literal_table_case())
        h = draw(H.hierarchies(1, 5))
        knames = H.class_names(h)
        env = H.build(h)
        corpus = G.value_corpus(knames)
        fit = G.fitting_fn(env, corpus)
        plain = st.sampled_from([["cls", n] for n in knames] + [["obj"], ["cls", "int"], ["cls", "Number"],
                                                                 ["cls", "str"], ["cls", "bool"], ["cls", "float"],
                                                                 ["obj"], ["cls", "list"], ["cls", "tuple"]])
        dep = G.dependent_ann(knames, kinds=["dep"] * 6 + ["lit"] * 4)
        p_dep = draw(st.sampled_from([0.3, 0.5, 0.8]))
        ann = G.satisfiable(st.one_of(plain, dep) if False else st.builds(
            lambda r, a, b: a if r < p_dep else b, st.floats(0, 1), dep, plain), fit)
        ms = draw(G.method_sets(knames, ann, max_methods=draw(st.sampled_from([2, 3, 5, 7])), max_pos=2,
                                with_opt=False, with_sites=False, allow_zero=False,
                                hosts=("func", "func", "attr", "mc"), catchall=True,
                                # keyword-only names, sometimes those of the conditions themselves (the generated
                                # dispatcher must not confuse a parameter with an object it injects)
                                kwnames=draw(st.sampled_from([("k0", "k1")] * 3 + [("p_pos", "p_even"), ("p_big", "INJECT"),
                                                                      ("MATCH0", "SUMMATION"), ("HANDLER0", "FALLTHROUGH"),
                                                                      ("ARG0", "HANDLER1")]))))
        calls = draw(G.calls_for(ms["methods"], corpus, ms["kwpool"], fitting=fit, n_calls=(2, 8)))
        for c in calls:
            c["script"] = []
        return {"hier": h, "methods": ms["methods"], "host": ms["host"], "calls": calls}

    return _case()


def holds(m, args, kws, env):
    return M.applicable(m, args, kws, env)


def declared_conditions(a):
    """(bound spec, condition id) of every Dependent[...] inside an annotation, at any depth (a bound may itself be
    value-dependent, and a dependent type may be a member of a combination)"""
    out = []
    if a[0] == "dep":
        out.append((a[1], a[2]))
        out += declared_conditions(a[1])
    elif a[0] in ("union", "inter"):
        for x in a[1]:
            out += declared_conditions(x)
    elif a[0] == "rebound" and isinstance(a[1], list):
        out += declared_conditions(a[1])  # a built-in value type under a value-dependent bound
    return out


def run_case(spec):
    res = R.CaseResult()
    env = H.build(spec["hier"])
    preds = S.PredLog()
    try:
        prog = Program({"hier": spec["hier"], "methods": spec["methods"], "host": spec["host"]}, env=env, preds=preds)
    except Exception as e:  # noqa: BLE001
        res.fail(f"program construction failed: {type(e).__name__}: {e}", None)
        return res
    try:
        methods = spec["methods"]
        ndep = sum(1 for m in methods for p in m["pos"] + m["kw"] if S.is_dependent_spec(M.ann_of(p)))
        res.label(f"dependent-params:{min(ndep, 4)}{'+' if ndep >= 4 else ''}")
        truth = {}
        for c in spec["calls"]:
            args = [S.build_value(v, env) for v in c["args"]]
            kws = {k: S.build_value(v, env) for k, v in c["kw"].items()}
            preds.asked.clear()
            out = prog.call(args, kws)
            trace = prog.H.trace()
            # bound guard: the condition is never asked about a value outside the bound
            for pid, v in preds.asked:
                ok = any(q == pid and S.accepts(b, v, env) is True
                         for m in methods for p in m["pos"] + m["kw"] for b, q in declared_conditions(M.ann_of(p)))
                if not ok:
                    res.fail(f"predicate {pid} was evaluated on {v!r}, which is not an instance of any bound "
                             f"it was declared with (call args={c['args']} kw={c['kw']})", "C10:bound-guard")
            if out.kind in ("other", "badcall"):
                res.fail(f"call args={c['args']} kw={c['kw']}: {out.brief()}", classify_other(out))
                continue
            got = ("method", out.value.mid) if out.kind == "ok" else ("nomethod",) if out.kind == "rejected" else (out.kind,)
            app, unk = M.applicable_set(methods, args, kws, env)
            for m in methods:
                if any(S.is_dependent_spec(M.ann_of(p)) for p in m["pos"] + m["kw"]):
                    truth.setdefault(m["id"], set()).add(m in app)
            if unk:
                res.skipped.append("applicability-unspecified")
                # weak facts only
                if got[0] == "method" and M.applicable(prog.by_id[got[1]], args, kws, env) is False:
                    res.fail(f"call args={c['args']} kw={c['kw']}: ran m{got[1]} whose condition/type does not hold",
                             "C10:ran-non-holding")
                continue
            exp = M.resolve(methods, args, kws, env)
            res.label("exp:" + exp[0])
            if exp[0] == "unspec":
                res.skipped.append("order-unspecified")
                if got[0] == "method" and prog.by_id[got[1]] not in app:
                    res.fail(f"call args={c['args']} kw={c['kw']}: ran m{got[1]} whose condition/type does not hold",
                             "C10:ran-non-holding")
                if got[0] == "nomethod" and app:
                    res.fail(f"call args={c['args']} kw={c['kw']}: 'No method' although m{app[0]['id']} holds",
                             "C10:nomethod-although-holding")
                continue
            if got != exp:
                res.fail(
                    f"call args={c['args']} kw={c['kw']}: expected {exp}, got {got} ({out.detail[:160]}); "
                    f"holding methods {[m['id'] for m in app]}",
                    classify(methods, app, args, kws, env, exp, got),
                )
            elif exp[0] == "method" and trace != [exp[1]]:
                res.fail(f"trace {trace} for expected {exp}", None)
            elif exp[0] != "method" and trace:
                res.fail(f"a body ran ({trace}) although the call raised {got}", None)
        flips = any(v == {True, False} for v in truth.values())
        has_static_companion = any(
            all(not S.is_dependent_spec(M.ann_of(p)) for p in m["pos"] + m["kw"]) for m in methods)
        res.nontrivial = flips and has_static_companion
        if flips:
            res.label("a-dependent-method-both-holds-and-fails")
    finally:
        prog.close()
    return res


def classify_other(out):
    from vlib.outcome import F5_CYCLE, is_f5_cycle

    return F5_CYCLE if is_f5_cycle(out) else None


def type_applicable(m, args, kws, env):
    """applicable with every condition ignored (dependent parameters judged by their bound only)"""
    relaxed = dict(m)

    def relax(p):
        a = M.ann_of(p)
        if S.is_dependent_spec(a):
            if a[0] == "dep":
                b = a[1]
                while b[0] == "dep":  # a value-dependent bound: its condition is ignored as well
                    b = b[1]
                return dict(p, ann=b)
            b = S.dep_bound(a, env)
            if b is None:
                return dict(p, ann=["obj"])
            name = next((k for k, v in env.items() if v is b), None)
            return dict(p, ann=["cls", name] if name else ["obj"])
        return p

    relaxed["pos"] = [relax(p) for p in m["pos"]]
    relaxed["kw"] = [relax(p) for p in m.get("kw") or []]
    return M.applicable(relaxed, args, kws, env)


def classify(methods, app, args, kws, env, exp, got):
    """F20: a dependent method whose condition does NOT hold still shields the methods it dominates
    (ranks are computed before the conditions are known)."""
    if exp[0] == "ambiguous" and got[0] == "method":
        seq = {m["id"]: i for i, m in enumerate(methods)}
        g = next(m for m in methods if m["id"] == got[1])
        n, names = len(args), set(kws)
        for d in methods:
            if d in app or type_applicable(d, args, kws, env) is not True:
                continue
            for x in app:
                if x is g:
                    continue
                if M.beats(d, x, n, names, env, seq) is not False and M.beats(g, x, n, names, env, seq) is not True:
                    return "C10:nonholding-dependent-shields-dominated:winner-instead-of-ambiguous"
    return None


# ----------------------------------------------------------------------------- parametrised condition families


def wild_cases():
    """two parametrised families of conditions on int (docs/dependent.md 'Wildcards': within ONE family Any is more
    general than a value); every pair of methods, with an object fallback, over a few values"""
    import itertools

    params = [None, 1, 2]  # None = typing.Any
    types = [("A", p) for p in params] + [("B", p) for p in params]
    out = []
    for t1, t2 in itertools.permutations(types, 2):
        out.append({"kind": "wild", "types": [list(t1), list(t2)], "values": [0, 1, 2, 3, 4]})
    return out


def run_wild(spec):
    import typing

    from ovld import Ovld, dependent_check

    res = R.CaseResult()
    asked = []

    @dependent_check
    def FamA(value: int, lo):
        asked.append(("A", value))
        return lo is typing.Any or value >= lo

    @dependent_check
    def FamB(value: int, n):
        asked.append(("B", value))
        return n is typing.Any or value % n == 0

    fam = {"A": FamA, "B": FamB}
    impl = {"A": lambda v, p: p is None or v >= p, "B": lambda v, p: p is None or v % p == 0}
    ov = Ovld()
    names = []
    for i, (f, p) in enumerate(spec["types"]):
        T = fam[f][typing.Any if p is None else p]
        src = f"def m{i}(x: T):\n    return {i}\n"
        glb = {"T": T}
        exec(src, glb)
        ov.register(glb[f"m{i}"])
        names.append((f, p))
    ov.register(lambda x: "fallback", priority=-1) if False else None

    def fb(x: object):
        return "fallback"

    ov.register(fb, priority=-1)
    res.nontrivial = spec["types"][0][0] != spec["types"][1][0]
    res.key = R.canon(spec["types"])
    res.label("families:" + ("different" if res.nontrivial else "same"))
    for v in spec["values"]:
        hold = [i for i, (f, p) in enumerate(names) if impl[f](v, p)]
        if len(hold) == 0:
            exp = "fallback"
        elif len(hold) == 1:
            exp = hold[0]
        else:
            (f1, p1), (f2, p2) = names
            if f1 != f2:
                exp = "ambiguous"  # unrelated conditions on one bound that both hold
            elif (p1 is None) != (p2 is None):
                exp = 0 if p2 is None else 1  # the wildcard is the more general one
            elif p1 == p2:
                exp = 1  # the same type written twice: the later registration replaces the earlier one
            else:
                exp = "ambiguous"
        try:
            got = ov(v)
        except TypeError as e:
            got = "ambiguous" if "mbiguous" in str(e) else f"TypeError: {e}"
        except Exception as e:  # noqa: BLE001
            got = f"{type(e).__name__}: {e}"
        if got != exp:
            res.fail(f"methods {names} (+ object fallback), value {v}: expected {exp}, got {got}",
                     "C10:wildcard-order-across-families" if names[0][0] != names[1][0] else None)
    return res


class Check:
    id = "C10"
    level = "exploration"
    rule = (
        "Hypothesis: hierarchy x method set mixing Dependent[bound, pred] / Literal / plain-class parameters "
        "(2-8 methods, 1-2 positions, keyword-only, priorities, three host kinds) x calls from a value corpus. "
        "Expected outcome from the reference model (condition-filtered applicability + documented order); "
        "unspecified comparisons are skipped and counted, with weaker facts still asserted; predicates log what "
        "they are asked. Non-trivial = some dependent method holds for one probed call and not for another, and the "
        "set has a purely static method; distinct by case hash. Plus every ordered pair of methods from two "
        "parametrised condition families (Any wildcard / values) with an object fallback, over 5 values."
    )
    assumptions = [
        "dependent vs static combinators and dependents on different comparable bounds are unspecified (skipped)",
        "predicates are total on their declared bound by construction; several raise on foreign types",
    ]

    def tasks(self, tier, seed):
        per = 300 if tier == "quick" else 9000
        return [{"kind": "rand", "seed": seed * 1000 + i, "n": per} for i in range(16)] + [{"kind": "wild"}]

    def run_task(self, task):
        st = R.Stats()
        if task["kind"] == "wild":
            R.run_enumerated(st, wild_cases(), run_wild, R.open_signatures(self.id))
            return st
        R.run_given(st, case_strategy(), run_case, task["seed"], task["n"], R.open_signatures(self.id))
        return st

    def run_case(self, spec):
        return run_wild(spec) if spec.get("kind") == "wild" else run_case(spec)


CHECK = Check()

if __name__ == "__main__":
    sys.exit(R.main("checks.c10"))
