"""C11 - Literal and the built-in value types match exactly their documented values.

Target type T from the closure of Literal[...] (1-5 values, mixed types), tuple[...] (incl. () and nesting),
list / Sequence / Collection / Mapping / dict [...], Regexp, StartsWith, EndsWith, HasKey, & and |.
Companion methods steer ovld's generated dependent dispatcher onto each of its code paths: 0-6 sibling
Literals (disjoint or overlapping with T), a second dependent position, a static sibling on the bound.
Method set: {T -> target} + companions + {object @ priority -10 -> fallback}.
Oracles for every corpus value v:
  (1) isinstance(v, T) (the library's own instance check) must equal the hand-written documented meaning
      (vlib.spec.accepts; for Literal: equal to some vi of vi's type => must, equal to none => must not);
  (2) dispatch agrees with isinstance: with H = the non-fallback methods whose types all accept v,
      H empty => fallback runs; |H| = 1 => that method runs; |H| >= 2 => a member of H runs or the
      ambiguity error is raised (two Literals / same-bound dependents that both hold => must be ambiguous);
      never 'No method', never a method outside H;
  (3) which specialised code was generated (if-chain / table / counting) is recorded and never changes (1)-(2).
"""
import linecache
import sys

from vlib import boot  # noqa: F401
from vlib import gen as G
from vlib import hier as H
from vlib import model as M
from vlib import runner as R
from vlib import spec as S
from vlib.prog import Program

from vlib.api import normalize_type

HIER = {"classes": [{"bases": []}, {"bases": [0]}]}
KN = ["K0", "K1"]


def target_strategy():
    from hypothesis import strategies as st

    # values whose repr is not a Python literal: members of int / str enums, infinity
    odd = [["enum", "RED"], ["enum", "BLUE"], ["enum", "LOW"], ["float", "inf"]]
    lit = st.lists(st.sampled_from(G.LIT_POOL + odd), min_size=1, max_size=5, unique_by=repr).map(lambda v: ["lit", v])
    elem = st.sampled_from([["cls", "int"], ["cls", "str"], ["obj"], ["cls", "K0"], ["cls", "K1"], ["cls", "bool"],
                            ["lit", [1]], ["lit", ["a"]]])
    tup0 = st.lists(elem, min_size=0, max_size=3).map(lambda e: ["tup", e])
    tup = st.one_of(tup0, st.lists(st.one_of(elem, tup0), min_size=1, max_size=2).map(lambda e: ["tup", e]))
    seq = st.one_of(
        elem.map(lambda e: ["tupvar", e]),  # tuple[T, ...]
        elem.map(lambda e: ["listof", e]), elem.map(lambda e: ["seqof", e]), elem.map(lambda e: ["collof", e]),
        st.tuples(elem, elem).map(lambda p: ["mapof", p[0], p[1]]),
        st.tuples(elem, elem).map(lambda p: ["dictof", p[0], p[1]]))
    strs = st.one_of(
        st.sampled_from(["^h", "a", "o$", "^$", "l+o", "^hello$"]).map(lambda p: ["regexp", p]),
        st.sampled_from(["h", "a", "", "he"]).map(lambda p: ["startswith", p]),
        st.sampled_from(["o", "b", "d", ""]).map(lambda p: ["endswith", p]))
    hk = st.lists(st.sampled_from(["a", 1, "b"]), min_size=1, max_size=2, unique=True).map(lambda k: ["haskey", k])
    base = st.one_of(lit, lit, tup, seq, strs, hk)
    comb = st.tuples(st.sampled_from(["union", "inter"]), st.one_of(strs, hk, lit), st.one_of(strs, hk, lit)).map(
        lambda t: [t[0], [t[1], t[2]]])
    # nested combinations (depth 2), members of different bounds, static classes among the members
    member = st.one_of(strs, hk, lit, st.sampled_from([["cls", "int"], ["cls", "str"], ["cls", "dict"]]))
    comb1 = st.tuples(st.sampled_from(["union", "inter"]), st.lists(member, min_size=2, max_size=3, unique_by=repr)).map(
        lambda t: [t[0], t[1]])
    comb2 = st.tuples(st.sampled_from(["union", "inter"]),
                      st.lists(st.one_of(member, comb1, comb1), min_size=2, max_size=3, unique_by=repr)).map(
        lambda t: [t[0], t[1]]).filter(lambda t: any(m[0] in ("union", "inter") for m in t[1]) and has_dependent(t))
    return st.one_of(base, base, base, comb, comb2)


def f5_zone(spec):
    """a combinator annotation together with another hook-owning annotation at the dispatched position"""
    anns = [spec["target"]] + spec["siblings"] + spec["others"]
    hooked = {R.canon(a) for a in anns if a[0] not in ("cls", "obj")}
    return any(a[0] in ("union", "inter") for a in anns) and len(hooked) >= 2


def has_dependent(t):
    if t[0] in ("union", "inter"):
        return any(has_dependent(m) for m in t[1])
    return t[0] != "cls"


def case_strategy():
    from hypothesis import strategies as st

    @st.composite
    def _case(draw):
        mode = draw(st.sampled_from(["free", "free", "table"]))
        if mode == "table":
            # >= 4 pairwise disjoint Literal methods (the lookup-table path), some multi-valued, values of one or
            # of mixed types
            pool = draw(st.permutations([0, 1, 2, 3, 4, 5, 6, 7, "a", "z", "ab", "q", True, ["float", 2.5]]))
            pool = [x for x in pool if not (x is True and 1 in pool[: pool.index(x)])]
            if draw(st.booleans()):
                pool = [x for x in pool if isinstance(x, int) and not isinstance(x, bool)]
            ngroups = draw(st.integers(4, 6))
            groups, i = [], 0
            for _ in range(ngroups):
                sz = draw(st.sampled_from([1, 1, 2, 3]))
                if i + sz > len(pool):
                    break
                groups.append(pool[i:i + sz])
                i += sz
            if True in pool and 1 in [x for g in groups for x in g if x is not True]:
                groups = [[x for x in g if x is not True] or [8] for g in groups]
            t = ["lit", groups[0]]
            sibs = [["lit", g] for g in groups[1:]]
            nsib = 0
        else:
            t = draw(target_strategy())
            nsib = draw(st.sampled_from([0, 0, 1, 2, 3, 4, 6]))
            sibs = []
        for _ in range(nsib):
            if t[0] == "lit" and draw(st.integers(0, 3)) == 0:
                # overlapping with the target
                shared = draw(st.sampled_from(t[1]))
                extra = draw(st.lists(st.sampled_from(G.LIT_POOL), max_size=2, unique_by=repr))
                vals = [shared] + [e for e in extra if repr(e) != repr(shared)]
            else:
                vals = draw(st.lists(st.sampled_from(G.LIT_POOL), min_size=1, max_size=2, unique_by=repr))
            sibs.append(["lit", vals])
        other = [draw(target_strategy()) for _ in range(draw(st.sampled_from([0, 0, 1, 2])))]
        # the same value check under another bound is a different type (list[T] / Sequence[T], dict / Mapping,
        # Dependent[dict, HasKey[...]] / HasKey[...])
        twin = {"listof": "seqof", "seqof": "listof", "dictof": "mapof", "mapof": "dictof"}
        if t[0] in twin and draw(st.integers(0, 2)) == 0:
            tw = [twin[t[0]]] + t[1:]
            other.insert(draw(st.integers(0, len(other))), tw)
            if draw(st.booleans()):
                other, t = [t] + [x for x in other if x is not tw], tw
        elif t[0] == "haskey" and draw(st.integers(0, 2)) == 0:
            other.insert(0, ["rebound", "dict", t])
        static = draw(st.sampled_from([None, None, ["cls", "int"], ["cls", "str"], ["cls", "tuple"], ["cls", "list"],
                                       ["cls", "Mapping"], ["cls", "Sequence"]]))
        two_pos = draw(st.integers(0, 4)) == 0
        second = None
        if two_pos:
            second = [draw(st.sampled_from([["lit", [0]], ["lit", [1, 2]], ["obj"], ["dep", ["cls", "int"], "pos"],
                                            ["cls", "int"]])) for _ in range(2 + len(sibs) + len(other) + 1)]
        host = draw(st.sampled_from(["func", "func", "attr", "mc"]))
        kwmode = draw(st.integers(0, 5)) == 0 and not two_pos
        return {"target": t, "siblings": sibs, "others": other, "static": static, "second": second, "host": host,
                "kwmode": kwmode}

    return _case()


def build_methods(spec):
    anns = [spec["target"]] + spec["siblings"] + spec["others"]
    if spec["static"] is not None:
        anns.append(spec["static"])
    methods = []
    for i, a in enumerate(anns):
        if spec.get("kwmode"):
            m = {"id": i, "pos": [], "kw": [{"name": "k0", "ann": a}], "prio": 0}
        else:
            m = {"id": i, "pos": [{"name": "a0", "ann": a}], "kw": [], "prio": 0}
            if spec["second"]:
                m["pos"].append({"name": "a1", "ann": spec["second"][i % len(spec["second"])]})
        methods.append(m)
    fb = {"id": len(anns), "prio": -10, "kw": [], "pos": [{"name": "a0", "ann": ["obj"]}]}
    if spec.get("kwmode"):
        fb = {"id": len(anns), "prio": -10, "pos": [], "kw": [{"name": "k0", "ann": ["obj"]}]}
    elif spec["second"]:
        fb["pos"].append({"name": "a1", "ann": ["obj"]})
    methods.append(fb)
    return methods


def dispatcher_paths(before):
    paths = set()
    srcs = []
    for k, v in list(linecache.cache.items()):
        if k in before or not k.startswith("<ovld:"):
            continue
        src = "".join(v[2])
        if "__DEPENDENT_DISPATCH__" not in src:
            continue
        if "HANDLER = " in src:
            paths.add("table")
        elif "SUMMATION" in src:
            paths.add("counting")
        else:
            paths.add("if-chain")
        srcs.append(src)
    return paths, srcs


def run_case(spec):
    res = R.CaseResult()
    env = H.build(HIER)
    methods = build_methods(spec)
    before = set(linecache.cache)
    try:
        prog = Program({"hier": HIER, "methods": methods, "host": spec["host"]}, env=env)
    except Exception as e:  # noqa: BLE001
        res.fail(f"program construction failed: {type(e).__name__}: {e}", None)
        return res
    try:
        fb_id = methods[-1]["id"]
        T = normalize_type(prog.anns["0_k0" if spec.get("kwmode") else "0_a0"], None)
        tspec = spec["target"]
        corpus = G.value_corpus(KN) + [["enum", "RED"], ["enum", "BLUE"], ["enum", "LOW"], ["enum", "HIGH"], ["float", "inf"]] + [["tuple", [["tuple", [["int", 1]]]]], ["tuple", [["int", 1], ["str", "a"], ["int", 2]]],
                                        ["str", "hello"], ["dict", [[["str", "b"], ["int", 2]]]],
                                        ["mproxy", [[["str", "a"], ["int", 1]]]], ["mproxy", [[["int", 1], ["str", "a"]]]],
                                        ["mproxy", []]]
        seconds = [None]
        if spec["second"]:
            seconds = [["int", 0], ["int", 1], ["int", 5], ["str", "q"]]
        multi = False
        for vs in corpus:
            v = S.build_value(vs, env)
            # (1) isinstance vs documented meaning
            try:
                inst = isinstance(v, T)
            except Exception as e:  # noqa: BLE001
                res.fail(f"isinstance({vs}, {tspec}) raised {type(e).__name__}: {e}", "C11:isinstance-raises")
                continue
            doc = S.accepts(tspec, v, env)
            if doc is None:
                res.skipped.append("documented-meaning-unspecified:" + tspec[0])
            elif bool(inst) is not doc:
                res.fail(f"isinstance({vs}, {tspec}) = {inst} but the documented meaning says {doc}",
                         "C11:isinstance:" + tspec[0])
            for sec in seconds:
                args = [v] + ([S.build_value(sec, env)] if sec is not None else [])
                kws = {}
                if spec.get("kwmode"):
                    args, kws = [], {"k0": v}
                # (2) dispatch vs isinstance
                holding = []
                for m in methods[:-1]:
                    ok = True
                    params = m["pos"] + m["kw"]
                    vals = args if not spec.get("kwmode") else [v]
                    for p, a in zip(params, vals):
                        key = f"{m['id']}_{p['name']}"
                        try:
                            if not isinstance(a, normalize_type(prog.anns[key], None)):
                                ok = False
                        except Exception:  # noqa: BLE001
                            ok = None
                    if ok:
                        holding.append(m["id"])
                out = prog.call(args, kws)
                if out.kind == "ok":
                    got = out.value.mid
                    if not holding and got != fb_id:
                        res.fail(f"value {vs} (2nd {sec}): no value type accepts it but m{got} ran", "C11:ran-non-holding")
                    elif holding and got not in holding:
                        res.fail(f"value {vs} (2nd {sec}): m{got} ran but isinstance accepts only {holding} "
                                 f"(target {tspec}, siblings {spec['siblings']})",
                                 "C11:missed" if got == fb_id else "C11:ran-non-holding")
                    elif len(holding) >= 2 and both_literal_same_pos(methods, holding, spec):
                        res.fail(f"value {vs}: Literal methods {holding} all hold but m{got} ran instead of the "
                                 f"ambiguity error", "C11:overlap-not-ambiguous")
                elif out.kind == "ambiguous":
                    if len(holding) < 2:
                        # between a Union / Intersection and another hook-owning type the order is not mirror-consistent
                        # (F5): depending on set order the ranks tie instead of cycling
                        res.fail(f"value {vs} (2nd {sec}): ambiguity error but only {holding} hold",
                                 "C11:spurious-ambiguity-between-hook-owning-types" if f5_zone(spec) else "C11:spurious-ambiguity")
                else:
                    sig = "C11:" + out.kind
                    if out.kind == "other" and "CycleError" in out.detail:
                        sig = "C11:type-order-cycle-between-hook-owning-types"  # consequence of F5
                    res.fail(f"value {vs} (2nd {sec}): {out.brief()} (holding {holding})", sig)
                if len(holding) >= 2:
                    multi = True
        paths, srcs = dispatcher_paths(before)
        for pth in paths:
            res.label("path:" + pth)
        res.label("target:" + tspec[0], f"siblings:{len(spec['siblings'])}")
        multival = tspec[0] != "lit" or len(tspec[1]) > 1
        # several value-dependent methods compete at the position (the dispatcher has to choose: table or counting
        # path - the observed path is only a label, it depends on identifiers of the generated code)
        competing = 1 + len(spec["siblings"]) + len(spec["others"]) >= 2
        res.nontrivial = (bool(paths & {"table", "counting"}) or (not paths and competing)) and (multival or multi)
        res.key = R.h64([sorted(paths), tspec, len(spec["siblings"]), len(spec["others"]), spec["static"],
                         bool(spec["second"]), spec["siblings"]])
        if srcs and res.nontrivial:
            spec.setdefault("_dispatcher_sample", srcs[0][:600])
    finally:
        prog.close()
    return res


def both_literal_same_pos(methods, holding, spec):
    if spec["second"]:
        return False
    anns = [(m["pos"] + m["kw"])[0]["ann"] for m in methods if m["id"] in holding]
    if len({R.canon(sorted(a[1], key=repr)) if a[0] == "lit" else R.canon(a) for a in anns}) < len(anns):
        return False  # identical Literal types (in any value order): the later registration replaces the earlier one
    return all(a[0] == "lit" for a in anns) and len({repr(sorted(type(S.lit_value(x)).__name__ for x in a[1])) for a in anns}) == 1 \
        and all(len({type(S.lit_value(x)) for x in a[1]}) == 1 for a in anns)


class Check:
    id = "C11"
    level = "exploration"
    rule = (
        "Hypothesis: target value type (Literal 1-5 values of mixed types, tuple[...], list/Sequence/Collection/"
        "Mapping/dict[...], Regexp, StartsWith, EndsWith, HasKey, & and |) x companion set (0-6 sibling Literals "
        "disjoint or overlapping, further value types, a static sibling, optionally a second dependent position or "
        "keyword-only placement, three host kinds) x every corpus value. isinstance(v, T) is compared with the "
        "hand-written documented meaning and dispatch is compared with isinstance. Non-trivial = the generated "
        "dispatcher took the table or counting path (or, when its source is not observable, >=2 value-dependent methods "
        "compete at the position) AND the target is multi-valued / non-Literal or overlaps a companion; distinct by "
        "(path set, target, companion shape)."
    )
    assumptions = [
        "Literal: an equal value of a foreign type (1.0 vs Literal[1]) is unspecified and skipped",
        "when several unrelated value types hold only 'a holding method runs or ambiguity' is asserted",
    ]

    def tasks(self, tier, seed):
        per = 150 if tier == "quick" else 5000
        return [{"kind": "rand", "seed": seed * 1000 + i, "n": per} for i in range(16)]

    def run_task(self, task):
        st = R.Stats()
        R.run_given(st, case_strategy(), run_case, task["seed"], task["n"], R.open_signatures(self.id))
        return st

    def run_case(self, spec):
        return run_case(spec)


CHECK = Check()

if __name__ == "__main__":
    sys.exit(R.main("checks.c11"))
