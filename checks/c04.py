"""C04 - caching is invisible: a call's outcome never depends on earlier calls.

History = a fixed generated method set (as C01: all annotation kinds, three host kinds, delegation
scripts with nested recurse / call_next / f.next) and a sequence of <=40 calls drawn with repetition
from a small pool (so argument classes are shared between different calls), including calls that fail
(ambiguous, unmatched, raising bodies).
Oracle (differential, independent of any resolution model): after each call, outcome kind + winner +
the full trace of entered bodies equal those of the same call on a FRESHLY BUILT function with no
history.
"""
import sys

from vlib import boot  # noqa: F401
from vlib import gen as G
from vlib import hier as H
from vlib import runner as R
from vlib import spec as S
from vlib.prog import Program


def case_strategy(max_steps=40):
    from hypothesis import strategies as st

    @st.composite
    def _kwshape_case(draw):
        """calls that supply the same NUMBER of arguments through different optional keywords, over methods whose
        relative specificity differs per keyword: a cache keyed by the count of arguments would confuse them"""
        h = {"classes": [{"bases": []}, {"bases": [0]}]}
        a, b = draw(st.sampled_from([(["cls", "int"], ["obj"]), (["cls", "K1"], ["cls", "K0"]), (["cls", "K0"], ["obj"])]))

        def kw(t0, t1):
            return [{"name": "k0", "ann": t0, "opt": True}, {"name": "k1", "ann": t1, "opt": True}]

        site = {"fn": "recurse", "npos": 1, "kws": [draw(st.sampled_from(["k0", "k1"]))]}
        methods = [{"id": 0, "prio": 0, "sites": [], "pos": [{"name": "a0", "ann": ["obj"]}], "kw": kw(a, b)},
                   {"id": 1, "prio": 0, "sites": [], "pos": [{"name": "a0", "ann": ["obj"]}], "kw": kw(b, a)},
                   {"id": 2, "prio": 0, "sites": [site], "pos": [{"name": "a0", "ann": ["cls", "str"]}], "kw": kw(["obj"], ["obj"])}]
        if draw(st.booleans()):
            methods.append({"id": 3, "prio": -1, "sites": [], "pos": [{"name": "a0", "ann": ["obj"]}], "kw": kw(["obj"], ["obj"])})
        v = ["int", 1] if a == ["cls", "int"] else ["inst", "K1"]
        x = ["inst", "K0"]
        pool = [{"args": [x], "kw": {"k0": v}, "script": []}, {"args": [x], "kw": {"k1": v}, "script": []},
                {"args": [x], "kw": {"k0": v, "k1": v}, "script": []}, {"args": [x], "kw": {}, "script": []},
                {"args": [["str", "s"]], "kw": {site["kws"][0]: v}, "script": [["site", 0, [x], {site["kws"][0]: v}]]}]
        ln = draw(st.sampled_from([3, 6, 12]))
        seq = draw(st.lists(st.integers(0, len(pool) - 1), min_size=ln, max_size=ln))
        return {"hier": h, "methods": methods, "host": draw(st.sampled_from(["func", "attr", "mc"])), "pool": pool, "seq": seq}

    @st.composite
    def _case(draw):
        if draw(st.integers(0, 7)) == 0:
            return draw(_kwshape_case())
        h = draw(H.hierarchies(1, 6))
        knames = H.class_names(h)
        env = H.build(h)
        corpus = G.value_corpus(knames)
        fit = G.fitting_fn(env, corpus)
        ms = draw(G.method_sets(knames, G.satisfiable(G.any_ann(knames, p_dep=0.3), fit)))
        pool = draw(G.calls_for(ms["methods"], corpus, ms["kwpool"], fitting=fit, n_calls=(2, 7)))
        ln = draw(st.sampled_from([3, 6, 12, 20, max_steps]))
        seq = draw(st.lists(st.integers(0, len(pool) - 1), min_size=ln, max_size=ln))
        return {"hier": h, "methods": ms["methods"], "host": ms["host"], "pool": pool, "seq": seq}

    return _case()


def observe(prog, call, env):
    args = [S.build_value(v, env) for v in call["args"]]
    kws = {k: S.build_value(v, env) for k, v in call["kw"].items()}
    out = prog.call(args, kws, script=call.get("script"))
    val = out.value.mid if (out.kind == "ok" and hasattr(out.value, "mid")) else None
    return (out.kind, val, tuple(prog.H.trace())), out


def run_case(spec):
    res = R.CaseResult()
    env = H.build(spec["hier"])
    pspec = {"hier": spec["hier"], "methods": spec["methods"], "host": spec["host"]}
    prog = Program(pspec, env=env)
    fresh = {}
    _fresh_cycle = {}
    try:
        seen_fail = False
        seen_nested = False
        prev_classes = []
        interesting = False
        for step, idx in enumerate(spec["seq"]):
            call = spec["pool"][idx % len(spec["pool"])]
            if idx not in fresh:
                p2 = Program(pspec, env=env)
                try:
                    fresh[idx], fo = observe(p2, call, env)
                    _fresh_cycle[idx] = "CycleError" in fo.detail
                finally:
                    p2.close()
            got, out = observe(prog, call, env)
            if got != fresh[idx]:
                from vlib.outcome import F5_CYCLE

                cyc = "CycleError" in out.detail or got[0] == "other" or fresh[idx][0] == "other"
                res.fail(
                    f"step {step}: call #{idx} args={call['args']} kw={call['kw']} script={call.get('script')} "
                    f"gave {got} after history {spec['seq'][:step]} but {fresh[idx]} on a fresh function "
                    f"({out.detail[:200]})",
                    F5_CYCLE if cyc and ("CycleError" in out.detail or _fresh_cycle.get(idx)) else None,
                )
                break
            classes = [(i, v[0], v[1] if v[0] == "inst" else None) for i, v in enumerate(call["args"])]
            if seen_fail and seen_nested and any(
                set(classes) & set(pc) and pi != idx for pi, pc in prev_classes
            ):
                interesting = True
            prev_classes.append((idx, classes))
            if got[0] in ("nomethod", "ambiguous", "rejected", "user"):
                seen_fail = True
            if len(got[2]) >= 2:
                seen_nested = True
        res.nontrivial = interesting
        if seen_fail:
            res.label("history-with-failing-call")
        if seen_nested:
            res.label("history-with-nested-delegation")
        res.label(f"steps:{min(len(spec['seq']) // 10 * 10, 40)}+")
    finally:
        prog.close()
    return res


class Check:
    id = "C04"
    level = "exploration"
    rule = (
        "Hypothesis histories: generated method set (C01's generator) and a sequence of 2-40 calls drawn with "
        "repetition from a pool of 2-7 calls (with delegation scripts). After every step the observed (outcome "
        "kind, winner, trace of entered bodies) must equal the same call on a freshly built function. Non-trivial "
        "= a call that follows a DIFFERENT call sharing an argument class/value at some position, with >=1 failing "
        "call and >=1 nested delegation earlier in the history; distinct by (method-set, call-sequence) hash."
    )
    assumptions = ["the fresh function is built from the same method specs in the same registration order"]

    def tasks(self, tier, seed):
        per = 250 if tier == "quick" else 2500
        return [{"kind": "rand", "seed": seed * 1000 + i, "n": per} for i in range(16)]

    def run_task(self, task):
        st = R.Stats()
        R.run_given(st, case_strategy(), run_case, task["seed"], task["n"], R.open_signatures(self.id))
        return st

    def run_case(self, spec):
        return run_case(spec)


CHECK = Check()

if __name__ == "__main__":
    sys.exit(R.main("checks.c04"))
