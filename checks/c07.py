"""C07 - call_next walks down the resolution order one method at a time.

Generated: hierarchy (multiple inheritance, ABCs, protocols) x method set over plain classes in which any
subset of methods delegates with call_next (same or other arguments) or f.next / self.f.next, from
functions, plain methods and OvldBase methods; 1-3 arguments, keyword-only parameters, priorities, replaced
identical signatures (tiebreak chains), chains ending in a tied rank.
Oracle (vlib.model.chain): from method m with arguments a, if m is applicable to a the next body is the
entry after m in the successive resolutions of a (winner removed each time); 'No method' below the last,
the ambiguity error at a tied rank; if m is not applicable to a, a fresh resolution.  Every delegation step
of every nested call is checked, and no method may be entered twice in a same-arguments chain.
A tenth of the cases are histories over an ovld that follows another one (checks/c07_linked.py).
"""
import sys

from vlib import boot  # noqa: F401
from vlib import gen as G
from vlib import hier as H
from vlib import model as M
from vlib import runner as R
from vlib import spec as S
from vlib.prog import Program

from checks import c07_linked as L


def case_strategy():
    from hypothesis import strategies as st

    linked = L.strategy(st)

    @st.composite
    def _valuedep_case(draw):
        """the current method is value-dependent and delegates OTHER values for which its own condition does not
        hold: 'when the current method is not applicable to args, call_next behaves like a fresh call'"""
        p1, p2 = draw(st.sampled_from([("pos", "neg"), ("neg", "pos"), ("even", "big"), ("pos", "even")]))
        site = {"fn": draw(st.sampled_from(["call_next", "call_next", "next"])), "npos": 1, "kws": []}
        methods = [{"id": 0, "prio": 2, "kw": [], "sites": [site], "pos": [{"name": "a0", "ann": ["dep", ["cls", "int"], p2]}]},
                   {"id": 1, "prio": 1, "kw": [], "sites": [site], "pos": [{"name": "a0", "ann": ["dep", ["cls", "int"], p1]}]},
                   {"id": 2, "prio": 0, "kw": [], "sites": [site], "pos": [{"name": "a0", "ann": ["cls", "int"]}]},
                   {"id": 3, "prio": -1, "kw": [], "sites": [], "pos": [{"name": "a0", "ann": ["obj"]}]}]
        vals = [["int", v] for v in (-3, -2, -1, 0, 1, 2, 3, 150)]
        calls = []
        for _ in range(draw(st.integers(2, 5))):
            script = [["site", 0, [draw(st.sampled_from(vals))], {}] if draw(st.booleans()) else ["site", 0, "same"]
                      for _ in range(draw(st.integers(1, 4)))]
            calls.append({"args": [draw(st.sampled_from(vals))], "kw": {}, "script": script})
        return {"hier": {"classes": [{"bases": []}]}, "methods": methods, "host": draw(st.sampled_from(["func", "attr", "mc"])),
                "calls": calls, "factories": []}

    @st.composite
    def _case(draw):
        k = draw(st.integers(0, 9))
        if k == 0:
            return draw(_valuedep_case())
        if k == 1:
            return draw(linked)
        h = draw(H.hierarchies(2, 7))
        knames = H.class_names(h)
        env = H.build(h)
        corpus = [["inst", n] for n in knames] + [["int", 1], ["str", "a"], ["inst", "object"], ["eqinst", knames[0]]]
        fit = G.fitting_fn(env, corpus)
        plain = st.sampled_from([["cls", n] for n in knames] * 3 + [["obj"], ["obj"], ["cls", "PA"], ["cls", "PB"],
                                                                     ["cls", "int"]])
        ms = draw(G.method_sets(knames, G.satisfiable(plain, fit), max_methods=7, max_pos=3, with_opt=False,
                                with_sites=False, allow_zero=False, hosts=("func", "func", "attr", "mc")))
        methods = ms["methods"]
        # repeated identical signatures -> tiebreak chain
        for _ in range(draw(st.sampled_from([0, 0, 1, 2]))):
            src = draw(st.sampled_from(methods))
            m = dict(src, id=len(methods))
            if src["pos"] and src["pos"][0].get("posonly"):
                m["pos"] = [dict(p, name=f"q{m['id']}_{j}") for j, p in enumerate(src["pos"])]
            methods.append(m)
        arities = {len(m["pos"]) for m in methods}
        for m in methods:
            # f.next(...) in plain functions, self.f.next(...) in methods with self; with the keyword arguments too
            fns = ["call_next", "call_next", "call_next", "next"]
            own = {"fn": draw(st.sampled_from(fns)), "npos": len(m["pos"]), "kws": [p["name"] for p in m["kw"]]}
            if own["fn"] == "next":
                own["form"] = draw(st.sampled_from([None, None, "explicit", "lambda"]))
            # the last positional parameter handed on BY KEYWORD (documented when every method names that position
            # identically): the delegation must continue exactly as with the positional spelling
            k = len(m["pos"])
            maxp = max(len(x["pos"]) for x in methods)
            # (the regime in which the entry point documents positional-by-keyword: at most one position that some
            # method lacks - see C03)
            regime = len([j for j in range(maxp) if any(j >= len(x["pos"]) or x["pos"][j].get("opt") for x in methods)]) <= 1
            if k and regime and draw(st.integers(0, 3)) == 0:
                nm = m["pos"][-1]["name"]
                if all((len(x["pos"]) < k or (x["pos"][k - 1]["name"] == nm and not x["pos"][k - 1].get("posonly")))
                       and all(q["name"] != nm for q in x["kw"]) and not any(q.get("posonly") for q in x["pos"][:k])
                       and nm not in [q["name"] for q in x["pos"][:k - 1]]
                       for x in methods):
                    own["npos"] = k - 1
                    own["kws"] = own["kws"] + [nm]
                    own["bykw"] = nm
            sites = [own]
            if draw(st.integers(0, 2)) == 0:
                sites.append({"fn": draw(st.sampled_from(["call_next", "recurse"])),
                              "npos": draw(st.sampled_from(sorted(arities))), "kws": []})
            m["sites"] = sites
        # sometimes several methods come from ONE def statement (a registration helper called once per type):
        # they share a code object and differ only in closure values
        factories = []
        if ms["host"] != "mc" and draw(st.integers(0, 2)) == 0:
            shape = lambda m: (tuple((p["name"], bool(p.get("posonly"))) for p in m["pos"]),  # noqa: E731
                               tuple(p["name"] for p in m["kw"]))
            by_shape = {}
            for m in methods:
                by_shape.setdefault(shape(m), []).append(m)
            groups = [g for g in by_shape.values() if len(g) >= 2]
            if groups:
                g = draw(st.sampled_from(groups))
                for m in g[1:]:
                    m["sites"] = g[0]["sites"]
                factories.append([m["id"] for m in g])
        calls = []
        for _ in range(draw(st.integers(1, 5))):
            base = draw(G.calls_for(methods, corpus, ms["kwpool"], fitting=fit, n_calls=(1, 1)))[0]
            n = draw(st.sampled_from([1, 2, 3, 5, 8]))
            script = []
            for _ in range(n):
                if draw(st.integers(0, 5)):
                    script.append(["site", 0, "same"])
                else:
                    script.append(["site", draw(st.integers(0, 1)),
                                   draw(st.lists(st.sampled_from(corpus), min_size=1, max_size=3)), {}])
            base["script"] = script
            calls.append(base)
        return {"hier": h, "methods": methods, "host": ms["host"], "calls": calls, "factories": factories}

    return _case()


def type_level_applicable(m, args, kws, env):
    if not (M.req_pos(m) <= len(args) <= M.max_pos(m)):
        return False
    for p, v in zip(m["pos"], args):
        b = S.dep_bound(M.ann_of(p), env) if S.is_dependent_spec(M.ann_of(p)) else None
        if S.is_dependent_spec(M.ann_of(p)):
            if b is None or not isinstance(v, b):
                return False
        elif S.accepts(M.ann_of(p), v, env) is not True:
            return False
    return True


def expected_next(methods, m, fn, args, kws, env):
    """-> ("method", id) | ("nomethod",) | ("ambiguous",) | ("unspec", why)"""
    if fn == "recurse":
        return M.resolve(methods, args, kws, env)
    app = M.applicable(m, args, kws, env)
    if app is None:
        return ("unspec", "applicability")
    if app is False:
        r = M.resolve(methods, args, kws, env)
        # (is the caller excluded only by its VALUE condition?  its class-level annotation accepts the arguments)
        byvalue = any(S.is_dependent_spec(M.ann_of(p)) for p in m["pos"] + m["kw"]) and type_level_applicable(m, args, kws, env)
        return r + (("fresh-by-value",),) if byvalue and r[0] != "unspec" else r
    # "the method that would have been chosen had the current method and everything ranked above it not been
    # registered": remove m and every applicable method that beats m; well-defined whenever m beats everything
    # that is left (true along a chain, and also for a method lying below a tied rank)
    cands, unk = M.applicable_set(methods, args, kws, env)
    if unk:
        return ("unspec", "applicability")
    seq = {x["id"]: i for i, x in enumerate(methods)}
    n, names = len(args), set(kws)
    rest, tied = [], []
    for x in cands:
        if x is m:
            continue
        b = M.beats(x, m, n, names, env, seq)
        if b is None:
            return ("unspec", "order")
        if b:
            continue  # ranked above the current method
        if M.beats(m, x, n, names, env, seq) is not True:
            # x is neither above nor below the current method for these arguments (a peer of a tied rank): by the
            # statement it has not been removed, so it takes part in the choice
            tied.append(x["id"])
        rest.append(x)
    r = M.resolve_among(rest, n, names, env, seq)
    return r + (("tied", tuple(tied)),) if tied and r[0] != "unspec" else r


def run_case(spec):
    if spec.get("family") == "linked":
        return L.run_case(spec)
    res = R.CaseResult()
    env = H.build(spec["hier"])
    try:
        prog = Program({"hier": spec["hier"], "methods": spec["methods"], "host": spec["host"],
                        "factories": spec.get("factories") or []}, env=env)
        if spec.get("factories"):
            res.label("methods-from-one-def")
    except Exception as e:  # noqa: BLE001
        res.fail(f"program construction failed: {type(e).__name__}: {e}", None)
        return res
    try:
        methods = spec["methods"]
        mi = H.has_mi(spec["hier"])
        for c in spec["calls"]:
            args = [S.build_value(v, env) for v in c["args"]]
            kws = {k: S.build_value(v, env) for k, v in c["kw"].items()}
            out = prog.call(args, kws, script=c.get("script"))
            trace = prog.H.trace()
            delegs = prog.H.delegs
            if out.kind in ("other", "badcall"):
                res.fail(f"call args={c['args']} kw={c['kw']} script={c.get('script')}: {out.brief()} trace={trace}", None)
                continue
            if not trace:
                continue
            # the first entry is a fresh resolution (C02's subject) - here only the delegation steps
            same_chain = True
            for j, (idx, mid, site, pos, dkws) in enumerate(delegs):
                m = prog.by_id[mid]
                dk = {k: v for k, v in dkws.items()}
                if site.get("bykw") and site["bykw"] in dk:
                    pos = list(pos) + [dk.pop(site["bykw"])]  # a positional parameter passed by keyword
                    res.label("delegation-with-positional-by-keyword")
                exp = expected_next(methods, m, site["fn"], pos, dk, env)
                same = (c["script"][j][2] == "same") if j < len(c["script"]) else False
                same_chain = same_chain and same and site["fn"] != "recurse"
                if idx + 1 < len(trace):
                    got = ("method", trace[idx + 1])
                else:
                    got = ("nomethod",) if out.kind == "rejected" else (out.kind,)
                    if out.kind in ("ok", "user"):
                        res.fail(f"delegation {j} from m{mid} via {site['fn']} entered no body but the call ended {out.kind}", None)
                        break
                tied = ()
                byvalue = False
                if exp and exp[-1] == ("fresh-by-value",):
                    byvalue, exp = True, exp[:-1]
                    res.label("caller-excluded-by-its-value-condition")
                if exp and isinstance(exp[-1], tuple) and exp[-1][:1] == ("tied",):
                    tied, exp = exp[-1][1], exp[:-1]
                    res.label("caller-has-tied-peers-for-the-delegated-arguments")
                res.label("step:" + site["fn"], "exp:" + exp[0])
                if exp[0] == "unspec":
                    res.skipped.append("unspec:" + exp[1])
                    break
                if got != exp:
                    res.fail(
                        f"call args={c['args']} kw={c['kw']} script={c.get('script')}: delegation {j} from m{mid} via "
                        f"{site['fn']}(same={same}) went to {got}, expected {exp}; trace={trace} ({out.detail[:120]})"
                        + (f" [methods {list(tied)} are neither above nor below m{mid} for these arguments and were skipped]"
                           if tied else ""),
                        "C07:tied-peer-of-caller-skipped" if tied
                        else "C07:value-inapplicable-caller-not-a-fresh-call" if byvalue else None,
                    )
                    break
            if same_chain and len(set(trace)) != len(trace):
                res.fail(f"same-arguments chain visited a method twice: {trace}", None)
            if (len(trace) >= 3 or (out.kind == "ambiguous" and len(trace) >= 1)) and (mi or len(args) >= 2):
                res.nontrivial = True
            res.label(f"chain-len:{min(len(trace), 5)}", "end:" + out.kind)
    finally:
        prog.close()
    return res


class Check:
    id = "C07"
    level = "exploration"
    rule = (
        "Hypothesis: hierarchy (2-7 classes, MI, ABCs, protocols) x <=9 methods over plain classes (1-3 positions, "
        "keyword-only, priorities, replaced identical signatures, three host kinds), every method delegating through a "
        "call_next / f.next / recurse site (in the documented regime 1 in 4 hands the last positional on by keyword); "
        "scripts of 1-8 delegations (same or other arguments; the corpus has an instance equal to every object). Every delegation "
        "step is compared with the reference chain. 1 case in 10 is a history over an ovld that follows another one "
        "(copy / mixins / variant with linkback=True, linear class chain, methods owned by either, child.next from the body, "
        "a generator expression, a lambda, a helper or a lambda in a comprehension; 3-14 steps of register / unregister on "
        "either, child.compile(), calls): each call must enter the present applicable methods most specific first, once each, "
        "then 'No method'. Non-trivial = a chain of >=3 bodies or one ending in the "
        "ambiguity error, over a hierarchy with multiple inheritance or with >=2 arguments, or a linked chain of >=2 bodies "
        "with a nested-frame f.next walked after the followed ovld changed; distinct by case hash."
    )
    assumptions = [
        "f.next is exercised on the function it was written for (functions, methods with self) and, in the linked family, on "
        "the following ovld by that ovld's own methods; a followed ovld's method calling the FOLLOWED ovld's .next while running "
        "in the follower is not asserted (not stated)",
        "the continuation from a method that the reference chain reaches only through a tied rank is not asserted",
    ]

    def tasks(self, tier, seed):
        per = 250 if tier == "quick" else 8000
        return [{"kind": "rand", "seed": seed * 1000 + i, "n": per} for i in range(16)]

    def run_task(self, task):
        st = R.Stats()
        R.run_given(st, case_strategy(), run_case, task["seed"], task["n"], R.open_signatures(self.id))
        return st

    def run_case(self, spec):
        return run_case(spec)


CHECK = Check()

if __name__ == "__main__":
    sys.exit(R.main("checks.c07"))
