"""C12 - the specificity order on types is mirror-symmetric and matches subclassing.

Types: closure of classes / ABCs / protocols / builtins under Union, Intersection, Exactly,
StrictSubclass, HasMethod, Literal, Dependent, tuple[...], type[...], parametrised generics, to
nesting depth 2 (quick: the full pair table, exhaustive) / depth 3 sampled (thorough); triples on the
class / generic fragment.  `Whatever` / `All` are excluded (deliberately incoherent).
Laws (exactly those the property lists):
  mirror      typeorder(a, b) is typeorder(b, a).opposite()
  reflexive   typeorder(a, a') is SAME for equal-but-distinct constructions
  classes     on plain classes the order is the issubclass table (hence transitive: triples)
  generic     G[args] LESS G; G[a..] vs G[b..] = merge of the argument orders
  union       MORE than each member;   intersection   LESS than each member
  dependent   LESS than its bound
"""
import itertools
import sys

from vlib import boot  # noqa: F401
from vlib import hier as H
from vlib import runner as R
from vlib import spec as S

from vlib.api import Order, normalize_type, typeorder

HIER = {"classes": [
    {"bases": []}, {"bases": [0]}, {"bases": [0], "marks": ["mA"]}, {"bases": [1, 2]}, {"bases": []},
    {"bases": [], "abc": True, "virt": [6]}, {"bases": [4], "marks": ["mB"]},
]}
ATOMS = [["cls", f"K{i}"] for i in range(7)] + [["obj"], ["cls", "int"], ["cls", "bool"], ["cls", "str"],
                                                  ["cls", "Number"], ["cls", "PA"], ["cls", "Sequence"],
                                                  # pairs of distinct types that are subclasses of each other
                                                  ["cls", "PA2"], ["cls", "PLen"], ["cls", "Sized"], ["cls", "tuple"]]
# generic aliases as they occur under type[...], in both spellings, including EMPTY argument lists
RAW = [["raw", n] for n in ("tuple[()]", "Tuple[()]", "Tuple", "tuple[int]", "Tuple[int]", "List", "list[int]", "List[int]",
                            "type[tuple[()]]", "type[Tuple]", "type[Tuple[()]]")]
SMALL = [["cls", "K0"], ["cls", "K1"], ["cls", "K2"], ["cls", "K3"], ["cls", "K4"], ["cls", "int"], ["obj"],
         ["cls", "str"]]


def depth1():
    out = []
    for a, b in itertools.combinations(SMALL[:6], 2):
        out.append(["union", [a, b]])
        out.append(["inter", [a, b]])
    out += [["union", [["cls", "K1"], ["cls", "K0"]]], ["union", [["cls", "K0"], ["cls", "K1"], ["cls", "K4"]]]]
    for a in SMALL[:6]:
        out += [["exactly", a[1]], ["strict", a[1]], ["type", a], ["tup", [a]], ["gen", "list", [a]],
                ["gen", "Iterable", [a]]]
    out += [["hasmethod", "mA"], ["hasmethod", "mB"], ["hasmethod", "__len__"]]
    out += [["lit", [0]], ["lit", [1]], ["lit", [0, 1]], ["lit", ["a"]], ["lit", ["a", 0]], ["lit", [True]]]
    out += [["dep", ["cls", "int"], "pos"], ["dep", ["cls", "int"], "even"], ["dep", ["cls", "K0"], "true"],
            ["dep", ["cls", "K1"], "true"], ["dep", ["obj"], "truthy"], ["dep", ["cls", "Number"], "pos"],
            ["regexp", "a"], ["startswith", "a"]]
    out += [["tup", []], ["tup", [["cls", "K0"], ["cls", "K1"]]], ["tup", [["cls", "K1"], ["cls", "K0"]]],
            ["tup", [["cls", "int"], ["cls", "str"]]]]
    out += [["type"], ["type", ["obj"]], ["gen", "dict", [["cls", "K0"], ["cls", "int"]]],
            ["gen", "dict", [["cls", "K1"], ["cls", "int"]]], ["gen", "list", [["obj"]]],
            ["gen", "Sequence", [["cls", "K0"]]], ["gen", "Sequence", [["cls", "K1"]]]]
    return out


def depth2(d1):
    out = []
    pick = [t for t in d1 if t[0] in ("union", "inter")][:6] + [t for t in d1 if t[0] in ("exactly", "strict")][:4] \
        + [t for t in d1 if t[0] in ("lit", "dep")][:5] + [["hasmethod", "mA"]]
    for t in pick:
        for a in (["cls", "K1"], ["cls", "K4"]):
            out.append(["union", [t, a]])
            out.append(["inter", [t, a]])
        out.append(["tup", [t]])
    for g in [t for t in d1 if t[0] == "gen"][:8]:
        out.append(["type", g])
        out.append(["gen", "list", [g]])
    out += [["tup", [["tup", [["cls", "K0"]]]]], ["tup", [["tup", [["cls", "K1"]]]]],
            ["type", ["gen", "list", [["gen", "list", [["cls", "K1"]]]]]]]
    return out


WILD = [["custom", "Between[0,10]"], ["custom", "Between[0,Any]"], ["custom", "Between[Any,10]"],
        ["custom", "Between[Any,Any]"], ["custom", "Between[1,10]"]]


def _wild_params(name):
    inner = name[name.index("[") + 1:-1].split(",")
    return [None if x == "Any" else int(x) for x in inner]


def wild_order(n1, n2):
    """docs/dependent.md 'Wildcards': Any is more general than a specific value, position by position"""
    p1, p2 = _wild_params(n1), _wild_params(n2)
    if p1 == p2:
        return Order.SAME
    if any(a is not None and b is not None and a != b for a, b in zip(p1, p2)):
        return None  # different concrete values: the documentation only speaks about Any vs a value
    less = all(b is None or a == b for a, b in zip(p1, p2))   # p1 at least as specific everywhere
    more = all(a is None or a == b for a, b in zip(p1, p2))
    return Order.LESS if less else Order.MORE if more else Order.NONE


def universe(depth):
    d1 = depth1()
    u = ATOMS + d1 + WILD + RAW
    if depth >= 2:
        u = u + depth2(d1)
    seen, out = set(), []
    for t in u:
        k = R.canon(t)
        if k not in seen:
            seen.add(k)
            out.append(t)
    return out


_ENV = None


def env():
    global _ENV
    if _ENV is None:
        _ENV = H.build(HIER)
        _ENV["__depcache__"] = {}
        import typing

        from ovld import dependent_check

        @dependent_check
        def Between(value: int, lo, hi):
            return (lo is typing.Any or value >= lo) and (hi is typing.Any or value <= hi)

        A = typing.Any
        _ENV["__raw__"] = {"tuple[()]": tuple[()], "Tuple[()]": typing.Tuple[()], "Tuple": typing.Tuple,
                           "tuple[int]": tuple[int], "Tuple[int]": typing.Tuple[int], "List": typing.List,
                           "list[int]": list[int], "List[int]": typing.List[int], "type[tuple[()]]": type[tuple[()]],
                           "type[Tuple]": type[typing.Tuple], "type[Tuple[()]]": type[typing.Tuple[()]]}
        _ENV["__custom__"] = {"Between[0,10]": Between[0, 10], "Between[0,Any]": Between[0, A],
                              "Between[Any,10]": Between[A, 10], "Between[Any,Any]": Between[A, A],
                              "Between[1,10]": Between[1, 10]}
    return _ENV


def build(t):
    """normalised ovld type for spec t (what an annotation becomes); raw for generics under type[...]"""
    if t[0] == "raw":
        return env()["__raw__"][t[1]]
    a = S.build_ann(t, env())
    if t[0] == "gen":
        return a  # a parametrised generic as it occurs under type[...] (not a value-dependent annotation)
    return normalize_type(a, None)


def ask(a, b):
    try:
        return typeorder(a, b)
    except RecursionError:
        return "EXC:RecursionError"
    except Exception as e:  # noqa: BLE001
        return f"EXC:{type(e).__name__}"


def opp(o):
    return o.opposite() if isinstance(o, Order) else o


def ctor(t):
    if t[0] == "custom":
        return "dep"  # a parametrised user dependent type
    return t[0] if t[0] != "gen" else "gen"


def name(o):
    return o.name if isinstance(o, Order) else str(o)


def class_of(t):
    if t[0] == "cls":
        return env()[t[1]]
    if t[0] == "obj":
        return object
    return None


def expected_class_order(c1, c2):
    if c1 is c2:
        return Order.SAME
    a, b = issubclass(c1, c2), issubclass(c2, c1)
    if a and b:
        return None
    return Order.LESS if a else Order.MORE if b else Order.NONE


def model_order(t1, t2):
    """Expected order where the property fixes it, else None."""
    c1, c2 = class_of(t1), class_of(t2)
    if c1 is not None and c2 is not None:
        return expected_class_order(c1, c2)
    if t1[0] == "custom" and t2[0] == "custom":
        return wild_order(t1[1], t2[1])
    if t1[0] == "custom" and c2 is not None and c2 is int:
        return Order.LESS  # a dependent type is below its bound
    if t1[0] == "gen" and c2 is not None and t2[0] == "cls" and t2[1] == t1[1]:
        return Order.LESS  # G[args] below its origin
    if t1[0] == "gen" and t2[0] == "gen" and t1[1] == t2[1] and len(t1[2]) == len(t2[2]):
        subs = [model_order(x, y) for x, y in zip(t1[2], t2[2])]
        if any(s is None for s in subs):
            return None
        return Order.merge(subs)
    if t1[0] == "union" and any(R.canon(m) == R.canon(t2) for m in t1[1]):
        return Order.MORE
    if t1[0] == "inter" and any(R.canon(m) == R.canon(t2) for m in t1[1]):
        return Order.LESS
    if t1[0] == "dep" and R.canon(t1[1]) == R.canon(t2):
        return Order.LESS
    if t1[0] == "lit" and c2 is not None:
        b = S.dep_bound(t1, env())
        if b is not None and b is c2:
            return Order.LESS
    if t1[0] in ("regexp", "startswith") and c2 is str:
        return Order.LESS
    if t1[0] == "tup" and c2 is tuple:
        return Order.LESS  # tuple[...] is below its origin / bound
    return None


def both_hooked(a, b):
    return hasattr(a, "__type_order__") and hasattr(b, "__type_order__")


def run_pair(spec):
    """spec: {"a": t1, "b": t2}"""
    res = R.CaseResult()
    t1, t2 = spec["a"], spec["b"]
    a, b = build(t1), build(t2)
    r12, r21 = ask(a, b), ask(b, a)
    c1, c2 = ctor(t1), ctor(t2)
    res.nontrivial = (c1 != c2) or c1 in ("union", "inter", "tup", "gen", "type", "dep", "lit")
    res.key = "|".join(sorted([R.canon(t1), R.canon(t2)]))
    res.label(f"pair:{min(c1, c2)}|{max(c1, c2)}")
    if isinstance(r12, str) or isinstance(r21, str):
        if r12 == r21:
            res.skipped.append(f"both-directions-raise:{r12}")
        else:
            res.fail(f"typeorder({t1}, {t2}) = {name(r12)} but reverse = {name(r21)}",
                     f"C12:raises:{min(c1, c2)}|{max(c1, c2)}")
        return res
    if r12 is not opp(r21):
        lo, hi = sorted([(c1, name(r12)), (c2, name(r21))])
        res.fail(
            f"mirror law: typeorder({t1}, {t2}) = {name(r12)} but typeorder({t2}, {t1}) = {name(r21)}",
            f"C12:mirror:both-own-hook:{lo[0]}|{hi[0]}" if both_hooked(a, b)
            else f"C12:mirror:{lo[0]}={lo[1]}|{hi[0]}={hi[1]}",
        )
    if R.canon(t1) == R.canon(t2):
        r = ask(a, a)
        if r is not Order.SAME:
            res.fail(f"reflexivity: typeorder(x, x) = {name(r)} for x = {t1}", f"C12:reflexive:{c1}")
        if a == b and r12 is not Order.SAME:  # equal-but-distinct constructions
            res.fail(f"equal types are not SAME: typeorder({t1}, rebuilt) = {name(r12)}", f"C12:reflexive-eq:{c1}")
    same_after_build = False
    try:
        same_after_build = bool(a == b)
    except Exception:  # noqa: BLE001
        pass
    for (x, y, r) in ((t1, t2, r12), (t2, t1, r21)):
        exp = model_order(x, y)
        if exp is not None and not (same_after_build and R.canon(x) != R.canon(y)):
            res.label("law-checked")
            if r is not exp:
                res.fail(f"law: typeorder({x}, {y}) = {name(r)}, expected {exp.name}",
                         f"C12:law:both-own-hook:{ctor(x)}|{ctor(y)}" if both_hooked(a, b)
                         else f"C12:law:{ctor(x)}|{ctor(y)}")
    return res


def run_triple(spec):
    res = R.CaseResult()
    ts = [spec["a"], spec["b"], spec["c"]]
    a, b, c = (build(t) for t in ts)
    ab, bc, ac = ask(a, b), ask(b, c), ask(a, c)
    res.nontrivial = True
    res.key = "T|" + "|".join(R.canon(t) for t in ts)
    less_eq = (Order.LESS, Order.SAME)
    if ab in less_eq and bc in less_eq:
        res.label("transitive-premise")
        want = Order.SAME if (ab is Order.SAME and bc is Order.SAME) else Order.LESS
        if ac is not want:
            res.fail(f"transitivity on the class/generic fragment: {ts[0]} {name(ab)} {ts[1]} {name(bc)} {ts[2]} "
                     f"but typeorder(a, c) = {name(ac)}", "C12:transitive")
    return res


def run_case(spec):
    return run_triple(spec) if "c" in spec else run_pair(spec)


def class_fragment():
    frag = list(ATOMS)
    for a in SMALL[:5]:
        frag += [["gen", "list", [a]], ["gen", "Sequence", [a]], ["type", a]]
    return frag


def raw_gen(t):
    """does the spec contain a parametrised generic outside type[...] (not a valid annotation member)?"""
    if not isinstance(t, list) or not t:
        return False
    if t[0] == "gen":
        return True
    if t[0] == "type":
        return False
    return any(raw_gen(x) for x in t[1:] if isinstance(x, list)) or any(
        raw_gen(y) for x in t[1:] if isinstance(x, list) for y in x if isinstance(y, list))


def sampled_strategy(kind):
    from hypothesis import strategies as st

    d1 = depth1()
    base = ATOMS + d1 + depth2(d1)

    @st.composite
    def deep(draw):
        t = draw(st.sampled_from(base))
        for _ in range(draw(st.integers(0, 2))):
            k = draw(st.sampled_from(["union", "inter", "tup", "type-gen", "listgen"]))
            o = draw(st.sampled_from(base))
            if k in ("union", "inter", "tup") and (raw_gen(t) or raw_gen(o)):
                continue
            if k == "union":
                t = ["union", [t, o] if draw(st.booleans()) else [o, t]]
            elif k == "inter":
                t = ["inter", [t, o] if draw(st.booleans()) else [o, t]]
            elif k == "tup":
                t = ["tup", [t] if draw(st.booleans()) else [t, o]]
            elif k == "listgen" and t[0] in ("cls", "obj", "gen"):
                t = ["gen", "list", [t]]
            elif k == "type-gen" and t[0] in ("cls", "obj", "gen"):
                t = ["type", t]
        return t

    if kind == "pairs":
        return st.builds(lambda a, b: {"a": a, "b": b}, deep(), deep())
    frag = class_fragment()
    return st.builds(lambda a, b, c: {"a": a, "b": b, "c": c}, *(st.sampled_from(frag),) * 3)


class Check:
    id = "C12"
    level = "exploration"
    rule = (
        "quick: the full ordered pair table over the depth-<=2 type universe (exhaustive for that universe) plus all "
        "triples over the class/generic fragment; thorough: additionally Hypothesis-sampled depth-3 pairs. Laws: "
        "mirror symmetry, reflexivity on equal-but-distinct constructions, issubclass table on classes, generic "
        "vs origin / argument-wise merge, union above / intersection below each member, dependent below its bound, "
        "transitivity on the class/generic fragment. Non-trivial = the operands are built by different constructors "
        "or by a combinator; distinct by unordered pair of canonical type specs."
    )
    assumptions = ["types are compared after ovld's own annotation normalisation (what a parameter annotation becomes)",
                   "Whatever / All excluded as the property says"]

    def tasks(self, tier, seed):
        n = len(universe(2))
        sh = 16
        t = [{"kind": "pairs", "shard": i, "nshards": sh} for i in range(sh)]
        t += [{"kind": "triples", "shard": i, "nshards": 4} for i in range(4)]
        if tier == "thorough":
            t += [{"kind": "rand", "seed": seed * 1000 + i, "n": 60000} for i in range(16)]
        else:
            t += [{"kind": "rand", "seed": seed * 1000 + i, "n": 1500} for i in range(4)]
        return t

    def run_task(self, task):
        st = R.Stats()
        sigs = R.open_signatures(self.id)
        if task["kind"] == "pairs":
            u = universe(2)
            specs = ({"a": a, "b": b} for i, a in enumerate(u) if i % task["nshards"] == task["shard"] for b in u)
            R.run_enumerated(st, specs, run_case, sigs, max_failures=40)
            st.extra["exhaustive_pair_table_types"] = len(u) if task["shard"] == 0 else 0
        elif task["kind"] == "triples":
            f = class_fragment()
            specs = ({"a": a, "b": b, "c": c} for i, a in enumerate(f) if i % task["nshards"] == task["shard"]
                     for b in f for c in f)
            R.run_enumerated(st, specs, run_case, sigs, max_failures=10)
        else:
            R.run_given(st, sampled_strategy("pairs"), run_case, task["seed"], task["n"], sigs)
        return st

    def run_case(self, spec):
        return run_case(spec)


CHECK = Check()

if __name__ == "__main__":
    sys.exit(R.main("checks.c12"))
