"""C15 - equivalent spellings of an annotation dispatch identically.

A generated method set; one parameter's annotation is written in two equivalent ways (program A / program B):
  union:  member order permuted;  typing.Union[...] / A | B / the tuple (A, B);  Optional[A] / A | None / Union[None, A]
  object: missing annotation / typing.Any / object
  any:    Annotated[A, ...] / A;   the string "A" / A;   a string naming Annotated[A, ...] / A
  list:   list[A] / typing.List[A]
  Literal: values in another order
Oracle (metamorphic): identical outcome vectors (kind, winner) over the whole call corpus.
Only the equivalences the property lists are respelled.
"""
import copy
import sys

from vlib import boot  # noqa: F401
from vlib import gen as G
from vlib import hier as H
from vlib import model as M
from vlib import runner as R
from vlib import spec as S
from vlib.prog import Program


def spellable(knames):
    from hypothesis import strategies as st

    cls = st.sampled_from([["cls", n] for n in knames] + [["cls", "int"], ["cls", "str"], ["cls", "float"]])
    union = st.lists(cls, min_size=2, max_size=3, unique_by=repr).map(lambda m: ["union", m])
    optional = cls.map(lambda c: ["union", [c, ["cls", "NoneType"]]])
    lit = st.lists(st.sampled_from([0, 1, 2, 3, "a", "z", -1, True, False]), min_size=2, max_size=4, unique_by=repr).map(
        lambda v: ["lit", v])
    lst = cls.map(lambda c: ["listof", c])
    # a value-dependent type whose bound is a union of classes (the bound can be respelled too)
    depu = st.sampled_from([["dep", ["union", [["cls", "int"], ["cls", "float"]]], "pos"],
                            ["dep", ["union", [["cls", "int"], ["cls", "str"]]], "truthy"],
                            ["dep", ["union", [["cls", "list"], ["cls", "tuple"]]], "short"]])
    typ = cls.map(lambda c: ["type", c])  # type[A] (takes class objects; respelled type[Annotated[A, ...]])
    # unions whose members share their __name__ (two list[...], two type[...], two Literal[...]): member order again
    samename = st.one_of(
        st.lists(cls, min_size=2, max_size=3, unique_by=repr).map(lambda m: ["union", [["listof", c] for c in m]]),
        st.lists(cls, min_size=2, max_size=3, unique_by=repr).map(lambda m: ["union", [["type", c] for c in m]]),
        st.just(["union", [["lit", [0, 1]], ["lit", ["a"]], ["lit", [2]]]]))
    # typing.Any (counts as object) and bare type (type[object]) as union members
    special = st.one_of(st.just(["union", [["anyT"], ["cls", "NoneType"]]]), cls.map(lambda c: ["union", [["anyT"], c]]),
                        st.just(["union", [["type"], ["cls", "NoneType"]]]), cls.map(lambda c: ["union", [["type"], c]]))
    return st.one_of(union, union, optional, st.just(["obj"]), lit, lst, cls, depu, typ, samename, special)


def case_strategy():
    from hypothesis import strategies as st

    @st.composite
    def _case(draw):
        h = draw(H.hierarchies(1, 5))
        knames = H.class_names(h)
        env = H.build(h)
        corpus = G.value_corpus(knames) + [["clsobj", n] for n in knames] + [["clsobj", "int"], ["clsobj", "str"]]
        fit = G.fitting_fn(env, corpus)
        others = G.satisfiable(G.any_ann(knames, p_dep=0.2), fit)
        ann = st.one_of(spellable(knames), spellable(knames), others)
        ms = draw(G.method_sets(knames, ann, max_methods=5, max_pos=2, with_opt=False, with_sites=False,
                                allow_zero=False, hosts=("func", "func", "attr", "mc")))
        methods = ms["methods"]
        # pick a parameter whose annotation can be respelled
        cands = [(m["id"], p["name"]) for m in methods for p in m["pos"] + m["kw"]]
        mid, pname = draw(st.sampled_from(cands))
        if draw(st.integers(0, 3)) == 0:
            # a redeclaration: the method is registered a second time, and it is the second registration that gets
            # respelled - an equivalent spelling must replace the first one exactly like the identical spelling does
            src = next(m for m in methods if m["id"] == mid)
            if not any(q.get("posonly") for q in src["pos"]):
                import copy as _copy

                dup = _copy.deepcopy(src)
                dup["id"] = max(m["id"] for m in methods) + 1
                methods.append(dup)
                mid = dup["id"]
        p = next(q for m in methods if m["id"] == mid for q in m["pos"] + m["kw"] if q["name"] == pname)
        a = p["ann"]
        options = ["annotated", "string", "string-annotated"]
        if a[0] == "union":
            options += ["union-permute", "union-pipe", "union-tuple", "union-permute-pipe"]
            if len(a[1]) == 2 and ["cls", "NoneType"] in a[1]:
                options += ["optional", "optional", "tuple-none", "tuple-none"]
            if len(a[1]) >= 3:
                options += ["tuple-nested", "tuple-nested"]
        if a[0] == "type" and len(a) == 2:
            options += ["type-annotated-inside"] * 3
        if a[0] == "dep" and a[1][0] == "union":
            options += ["bound-pipe", "bound-tuple", "bound-pipe", "bound-tuple"]
        if a[0] == "obj":
            options += ["any", "missing", "any", "missing", "annotated-any", "string-annotated-any"]
        if a[0] == "lit" and len(a[1]) >= 2:
            options += ["lit-permute"] * 3
        if a[0] == "listof":
            options += ["typing-list"] * 3
        how = draw(st.sampled_from(options))
        perm = None
        if how in ("union-permute", "union-permute-pipe", "lit-permute"):
            perm = draw(st.permutations(list(range(len(a[1])))).filter(lambda q: list(q) != sorted(q)))
        calls = draw(G.calls_for(methods, corpus, ms["kwpool"], fitting=fit, n_calls=(4, 10)))
        for c in calls:
            c["script"] = []
        return {"hier": h, "methods": methods, "host": ms["host"], "calls": calls,
                "respell": {"mid": mid, "param": pname, "how": how, "perm": list(perm) if perm else None}}

    return _case()


def variant(spec):
    """-> (methods_B, spelling_B) for the respelled program"""
    rs = spec["respell"]
    methods = copy.deepcopy(spec["methods"])
    key = f"{rs['mid']}_{rs['param']}"
    p = next(q for m in methods if m["id"] == rs["mid"] for q in m["pos"] + m["kw"] if q["name"] == rs["param"])
    how = rs["how"]
    sp = {}
    if how == "annotated":
        sp = {"wrap": "annotated"}
    elif how == "string":
        sp = {"wrap": "string"}
    elif how == "string-annotated":
        sp = {"wrap": "string", "annotated": True}
    elif how in ("union-permute", "union-permute-pipe"):
        p["ann"] = ["union", [p["ann"][1][i] for i in rs["perm"]]]
        if how.endswith("pipe"):
            sp = {"union": "pipe"}
    elif how == "union-pipe":
        sp = {"union": "pipe"}
    elif how == "union-tuple":
        sp = {"union": "tuple"}
    elif how == "optional":
        sp = {"union": "optional"}
    elif how in ("tuple-none", "tuple-nested"):
        sp = {"union": how}
    elif how == "type-annotated-inside":
        sp = {"type_inner": "annotated"}
    elif how == "bound-pipe":
        sp = {"bound_union": "pipe"}
    elif how == "bound-tuple":
        sp = {"bound_union": "tuple"}
    elif how == "any":
        sp = {"obj": "any"}
    elif how == "annotated-any":
        sp = {"obj": "any", "wrap": "annotated"}
    elif how == "string-annotated-any":
        sp = {"obj": "any", "wrap": "string", "annotated": True}
    elif how == "missing":
        sp = {"wrap": "missing"}
    elif how == "lit-permute":
        p["ann"] = ["lit", [p["ann"][1][i] for i in rs["perm"]]]
    elif how == "typing-list":
        sp = {"list": "typing"}
    return methods, {key: sp}


def observe(prog, call, env):
    args = [S.build_value(v, env) for v in call["args"]]
    kws = {k: S.build_value(v, env) for k, v in call["kw"].items()}
    out = prog.call(args, kws)
    kind = "nomethod" if out.kind == "rejected" else out.kind
    return (kind, out.value.mid if out.kind == "ok" else None), out


def run_case(spec):
    res = R.CaseResult()
    env = H.build(spec["hier"])
    methods_b, spelling_b = variant(spec)
    rs = spec["respell"]
    try:
        pa = Program({"hier": spec["hier"], "methods": spec["methods"], "host": spec["host"]}, env=env)
    except Exception as e:  # noqa: BLE001
        res.fail(f"program A construction failed: {type(e).__name__}: {e}", None)
        return res
    try:
        pb = Program({"hier": spec["hier"], "methods": methods_b, "host": spec["host"]}, env=env, spelling=spelling_b)
    except Exception as e:  # noqa: BLE001
        pa.close()
        res.fail(f"respelled program ({rs['how']}) construction failed: {type(e).__name__}: {e}", "C15:build:" + rs["how"])
        return res
    try:
        wins = set()
        for c in spec["calls"]:
            ga, oa = observe(pa, c, env)
            gb, ob = observe(pb, c, env)
            wins.add(ga[1] == rs["mid"])
            if ga != gb:
                res.fail(
                    f"respelling {rs['how']} of m{rs['mid']}.{rs['param']} "
                    f"({next(q['ann'] for m in spec['methods'] if m['id'] == rs['mid'] for q in m['pos'] + m['kw'] if q['name'] == rs['param'])}"
                    f", perm {rs['perm']}) changed the outcome of args={c['args']} kw={c['kw']}: {ga} -> {gb} "
                    f"({oa.detail[:100]} / {ob.detail[:100]})",
                    classify(spec, rs, ga, gb, oa, ob),
                )
                break
        res.nontrivial = wins == {True, False}
        res.label("respell:" + rs["how"])
    finally:
        pa.close()
        pb.close()
    return res


def classify(spec, rs, ga, gb, oa, ob):
    from vlib.outcome import F5_CYCLE, is_f5_cycle

    return F5_CYCLE if (is_f5_cycle(oa) or is_f5_cycle(ob)) else None


class Check:
    id = "C15"
    level = "exploration"
    rule = (
        "Hypothesis: a generated method set (hierarchy, <=5 methods, 1-2 positions, keyword-only, priorities, three host "
        "kinds) in which one parameter annotation is respelled (union order / typing.Union / | / tuple / Optional forms, "
        "missing / Any / object, Annotated, string, typing.List, Literal value order; unions with same-named members, "
        "Any / bare type members; 1 case in 4 respells a second registration of the same method); both programs run 4-10 corpus "
        "calls and must give identical outcome vectors. Non-trivial = the respelled method wins for some probed call and "
        "not for another; distinct by case hash."
    )
    assumptions = ["only the equivalences listed in the property are respelled"]

    def tasks(self, tier, seed):
        per = 250 if tier == "quick" else 5000
        return [{"kind": "rand", "seed": seed * 1000 + i, "n": per} for i in range(16)]

    def run_task(self, task):
        st = R.Stats()
        R.run_given(st, case_strategy(), run_case, task["seed"], task["n"], R.open_signatures(self.id))
        return st

    def run_case(self, spec):
        return run_case(spec)


CHECK = Check()

if __name__ == "__main__":
    sys.exit(R.main("checks.c15"))
