"""C14 - types passed as arguments dispatch on type[...] by subtype.

Generated: method sets mixing type[K], type[G[...]] (list / dict / Sequence / Iterable, nested), bare `type`,
`object` and ordinary classes, 1-2 positions (the other an ordinary argument); passed objects: classes,
parametrised generics (also spelled typing.List[...]), nested parametrisations, typing.Any, ordinary instances.
Model: type[T] is applicable iff the passed type is a subtype of T (class: subclass; generic: same-or-subclass
origin and, for a parametrised T, equal-length argument-wise subtype); bare type == type[object]; Any counts as
object; a strictly more specific type[...] beats a more general one and `object`; ordinary positions dispatch
on the class.  Metamorphic: removing every type[...] method never changes the outcome for ordinary arguments; and
the same arguments forwarded from inside a router method on an unrelated class (recurse / call_next, statically
shaped and starred, in functions and in methods with self) resolve exactly like the direct call.  Passed generics
may carry typing.Any at nested argument slots (counts as object).
"""
import sys
import typing

from vlib import boot  # noqa: F401
from vlib import hier as H
from vlib import runner as R
from vlib import spec as S
from vlib.prog import Program

# K4 is the "router" class: never passed as a type, never in a type[...] annotation
# K3 is an ABC (its metaclass is ABCMeta): a method annotated with the METACLASS takes the class object K3
HIER = {"classes": [{"bases": []}, {"bases": [0]}, {"bases": [1]}, {"bases": [], "abc": True}, {"bases": []}]}
KN = ["K0", "K1", "K2", "K3"]
ORIGINS1 = ["list", "Sequence", "Iterable", "set", "tuple"]
TYPING_SPELL = {"list": typing.List, "dict": typing.Dict, "Sequence": typing.Sequence, "Iterable": typing.Iterable,
                "set": typing.Set}


def inner_strategy(depth=2):
    from hypothesis import strategies as st

    cls = st.sampled_from([["cls", n] for n in KN] + [["cls", "int"], ["cls", "str"], ["obj"], ["cls", "list"],
                                                        ["cls", "dict"], ["cls", "Sequence"], ["cls", "Iterable"]])
    if depth <= 0:
        return cls

    sub = inner_strategy(depth - 1)
    gen1 = st.tuples(st.sampled_from(ORIGINS1), sub).map(lambda t: ["gen", t[0], [t[1]]])
    gen2 = st.tuples(sub, sub).map(lambda t: ["gen", "dict", [t[0], t[1]]])
    gent = st.lists(sub, min_size=2, max_size=3).map(lambda t: ["gen", "tuple", t])
    return st.one_of(cls, cls, gen1, gen1, gen2, gent)


def any_inside():
    """a parametrised generic with typing.Any at one or more (possibly nested) argument slots"""
    from hypothesis import strategies as st

    @st.composite
    def _g(draw):
        g = draw(inner_strategy().filter(lambda i: i[0] == "gen"))
        hit = [False]

        def walk(x, force):
            if x[0] == "gen":
                args = list(x[2])
                k = draw(st.integers(0, len(args) - 1)) if force else -1
                return ["gen", x[1], [walk(a, j == k) for j, a in enumerate(args)]]
            if force or draw(st.integers(0, 3)) == 0:
                hit[0] = True
                return ["anyT"]
            return x

        g = walk(g, True)
        return ["genobj", g[1], g[2], False]

    return _g()


def odd_args(base):
    """a parametrised generic one of whose (possibly nested) arguments is not a class: None (typing's spelling of
    NoneType; the builtin aliases keep the None) or, last in a tuple, the Ellipsis of a variadic tuple"""
    from hypothesis import strategies as st

    @st.composite
    def _g(draw):
        g = draw(base)

        def walk(x):
            args = list(x[2])
            k = draw(st.integers(0, len(args) - 1))
            if args[k][0] == "gen" and draw(st.booleans()):
                args[k] = walk(args[k])
            elif x[1] == "tuple" and k == len(args) - 1 and k > 0 and draw(st.booleans()):
                args[k] = ["ellipsis"]
            else:
                args[k] = ["noneT"]
            return ["gen", x[1], args]

        g = walk(g)
        return ["genobj", g[1], g[2], draw(st.integers(0, 3)) == 0]

    return _g()


def case_strategy():
    from hypothesis import strategies as st

    @st.composite
    def _case(draw):
        two = draw(st.integers(0, 2)) == 0
        kwmode = not two and draw(st.integers(0, 3)) == 0  # the type travels through a keyword-only parameter
        swap = two and draw(st.integers(0, 2)) == 0
        nm = draw(st.integers(1, 6))
        ann = st.one_of(
            inner_strategy().map(lambda i: ["type", i]), inner_strategy().map(lambda i: ["type", i]),
            # typing.Any inside the annotation: type[Any], type[list[Any]], type[dict[str, Any]] (counts as object)
            st.one_of(st.just(["type", ["anyT"]]), any_inside().map(lambda g: ["type", ["gen", g[1], g[2]]])),
            # a union as an ARGUMENT of a generic inside the annotation: type[list[A | B]] (the aimed call passes the same)
            st.lists(inner_strategy(0), min_size=2, max_size=2, unique_by=repr).map(
                lambda ms: ["type", ["gen", "list", [["union", ms]]]]),
            # a union inside the annotation: type[A | B], type[Union[A, list[B]]]
            st.lists(inner_strategy(1), min_size=2, max_size=2, unique_by=repr).map(lambda ms: ["type", ["union", ms]]),
            st.just(["type"]), st.just(["obj"]), st.sampled_from([["cls", "K0"], ["cls", "K1"], ["cls", "int"], ["cls", "ABCMeta"]]))
        ordinary = st.sampled_from([["cls", "K0"], ["cls", "K1"], ["cls", "int"], ["obj"], ["cls", "str"]])
        methods = []
        for i in range(nm):
            pos = [{"name": "a0", "ann": draw(ann)}]
            if two:
                pos.append({"name": "a1", "ann": draw(ordinary)})
            if kwmode:
                methods.append({"id": i, "pos": [{"name": "a0", "ann": ["obj"]}],
                                "kw": [{"name": "t", "ann": pos[0]["ann"]}], "prio": 0})
            elif swap:
                # the type travels through the SECOND, uniformly named parameter; the first one has a different name
                # in every method (hence is strictly positional)
                methods.append({"id": i, "kw": [], "prio": 0, "order": [1, 0],
                                "pos": [{"name": f"x{i}", "ann": pos[1]["ann"]}, {"name": "t", "ann": pos[0]["ann"]}]})
            else:
                methods.append({"id": i, "pos": pos, "kw": [], "prio": 0})
        passed = st.one_of(
            st.sampled_from([["clsobj", n] for n in KN + ["int", "str", "list", "dict", "object"]]),
            inner_strategy().filter(lambda i: i[0] == "gen").map(lambda i: ["genobj", i[1], i[2],
                                                                            False]),
            inner_strategy(1).filter(lambda i: i[0] == "gen").map(lambda i: ["genobj", i[1], i[2], True]),
            st.just(["any"]),
            any_inside(),
            odd_args(inner_strategy().filter(lambda i: i[0] == "gen")),
            st.sampled_from([["inst", "K0"], ["inst", "K1"], ["inst", "K2"], ["int", 1], ["str", "s"],
                             ["originst", "K0"], ["originst", "K1"]]),
        )
        # aim some calls at an annotation: pass exactly its inner type or a "smaller" one
        calls = []
        for _ in range(draw(st.integers(2, 8))):
            if draw(st.booleans()):
                m = draw(st.sampled_from(methods))
                a = typed_params(m)[0]["ann"]
                if a[0] == "type" and len(a) == 2:
                    v = to_passed(a[1])
                    if v[0] == "genobj" and draw(st.integers(0, 3)) == 0:
                        # the annotation's own generic with a None / ... at one argument slot
                        v = draw(odd_args(st.just(no_any(["gen", v[1], v[2]])).filter(
                            lambda g: all(y[0] != "union" for y in g[2]))))
                else:
                    v = draw(passed)
            else:
                v = draw(passed)
            args = [v]
            if two:
                args.append(draw(st.sampled_from([["inst", "K0"], ["inst", "K1"], ["int", 1], ["str", "s"]])))
            calls.append(args)
        # the same calls are also delivered from inside a method: a router method on an unrelated class forwards the
        # arguments through recurse / call_next sites, statically shaped and starred (run-time lookup), in plain
        # functions and in methods with self
        host = draw(st.sampled_from(["func", "func", "attr", "mc"]))
        router = (not kwmode) and draw(st.integers(0, 2)) > 0
        return {"methods": methods, "calls": calls, "kwmode": kwmode, "swap": swap, "host": host, "router": router,
                "union_spelling": draw(st.sampled_from(["typing", "pipe"]))}

    return _case()


def to_passed(inner):
    if inner[0] == "cls":
        return ["clsobj", inner[1]]
    if inner[0] == "obj":
        return ["clsobj", "object"]
    if inner[0] == "anyT":
        return ["any"]
    if inner[0] == "union":
        return to_passed(inner[1][0])  # aim at its first member
    return ["genobj", inner[1], inner[2], False]


def build_inner(x, env):
    import collections.abc

    if x[0] == "anyT":
        return typing.Any
    if x[0] == "ellipsis":
        return ...
    if x[0] == "noneT":
        return None
    if x[0] == "gen":
        o = env[x[1]] if x[1] in env else getattr(collections.abc, x[1])
        a = tuple(build_inner(y, env) for y in x[2])
        return o[a if len(a) != 1 else a[0]]
    return S.build_ann(x, env)


def no_any(x):
    """typing.Any counts as object"""
    if x[0] == "anyT":
        return ["obj"]
    if x[0] == "noneT":
        return ["cls", "NoneType"]  # None written as a type argument is NoneType (typing)
    if x[0] == "gen":
        return ["gen", x[1], [no_any(y) for y in x[2]]]
    return x


def strip_any(a):
    if a and a[0] == "type" and len(a) == 2:
        return ["type", no_any(a[1])]
    return a


def build_passed(v, env):
    if v[0] == "originst":
        # an ordinary instance that happens to carry an attribute named __origin__ (it is not a type)
        o = env[v[1]]()
        o.__origin__ = list
        o.__args__ = (int,)
        return o
    if v[0] == "genobj":
        args = tuple(build_inner(x, env) for x in v[2])
        if len(v) > 3 and v[3] and v[1] in TYPING_SPELL:
            return TYPING_SPELL[v[1]][args if len(args) != 1 else args[0]]
        return build_inner(["gen", v[1], v[2]], env)
    return S.build_value(v, env)


# ----------------------------------------------------------------------------- model


def as_inner(v):
    """passed value spec -> inner type spec, or None if it is not a type object"""
    if v[0] == "clsobj":
        return ["obj"] if v[1] == "object" else ["cls", v[1]]
    if v[0] == "genobj":
        return no_any(["gen", v[1], v[2]])
    if v[0] == "any":
        return ["obj"]
    return None


def klass(i, env):
    return object if i[0] == "obj" else env[i[1]] if i[0] == "cls" else None


def sub(x, t, env):
    """is type x a subtype of type t?  True / False / None (unspecified)"""
    if x[0] == "ellipsis":
        # the marker of a variadic tuple is not a type: not a subtype of a parametrised generic, otherwise unspecified
        return False if t[0] == "gen" else None
    if t[0] == "obj":
        return True
    if R.canon(x) == R.canon(t):
        return True  # every type is a subtype of itself
    if t[0] == "union":
        vals = [sub(x, m, env) for m in t[1]]
        return True if any(v is True for v in vals) else (None if any(v is None for v in vals) else False)
    if x[0] == "union":
        return None
    cx, ct = klass(x, env), klass(t, env)
    if cx is not None and ct is not None:
        return issubclass(cx, ct)
    if x[0] == "gen" and ct is not None:
        return issubclass(env[x[1]], ct)
    if cx is not None and t[0] == "gen":
        return None if issubclass(cx, env[t[1]]) else False
    ox, ot = env[x[1]], env[t[1]]
    if not issubclass(ox, ot):
        return False
    if len(x[2]) != len(t[2]):
        return False  # argument-wise subtyping needs the same number of arguments
    vals = [sub(a, b, env) for a, b in zip(x[2], t[2])]
    if any(v is False for v in vals):
        return False
    return None if any(v is None for v in vals) else True


def applicable1(ann, v, env):
    inner = as_inner(v)
    if ann[0] == "obj":
        return True
    if ann[0] == "type":
        if inner is None:
            return False
        return True if len(ann) == 1 else sub(inner, ann[1], env)
    # ordinary class annotation
    if inner is not None:
        if ann[1] == "ABCMeta":
            # a metaclass annotation takes the classes it is the metaclass of
            return isinstance(build_passed(v, env), env["ABCMeta"]) if v[0] == "clsobj" else (False if v[0] == "genobj" else None)
        return False if ann[1] not in ("type",) else None
    return isinstance(build_passed(v, env), env[ann[1]])


def order1(a, b, env):
    """LESS / MORE / SAME / NONE / UNSPEC between two annotations of one position"""
    if R.canon(a) == R.canon(b):
        return S.SAME
    na = ["type", ["obj"]] if a == ["type"] else a
    nb = ["type", ["obj"]] if b == ["type"] else b
    if R.canon(na) == R.canon(nb):
        return S.UNSPEC
    if na[0] == "type" and nb[0] == "type":
        x, y = na[1], nb[1]
        if x[0] == "union" or y[0] == "union":
            return S.UNSPEC  # (the order of unions is C12's subject)
        # carve-outs (DESIGN C14): bare class vs parametrised generic of a different origin; generics of different origins
        if (x[0] == "gen") != (y[0] == "gen"):
            g, c = (x, y) if x[0] == "gen" else (y, x)
            if c[0] == "cls" and c[1] != g[1]:
                if sub(x, y, env) is False and sub(y, x, env) is False:
                    return S.NONE
                return S.UNSPEC
        if x[0] == "gen" and y[0] == "gen" and x[1] != y[1]:
            # generics of different origins: the library orders them by origin alone (type[set[object]] below
            # type[Iterable[K0]]) although neither is a subtype of the other; the statement does not say
            ox, oy = env[x[1]], env[y[1]]
            if not issubclass(ox, oy) and not issubclass(oy, ox):
                return S.NONE
            return S.UNSPEC
        s12, s21 = sub(x, y, env), sub(y, x, env)
        if s12 is None or s21 is None:
            return S.UNSPEC
        if s12 and s21:
            return S.UNSPEC
        return S.LESS if s12 else S.MORE if s21 else S.NONE
    if na[0] == "type" and nb[0] == "obj":
        return S.LESS
    if nb[0] == "type" and na[0] == "obj":
        return S.MORE
    if (na[0] == "type" or nb[0] == "type") and ["cls", "ABCMeta"] in (na, nb):
        return S.UNSPEC  # a metaclass against type[...]: not stated
    if na[0] == "type" or nb[0] == "type":
        return S.NONE
    return S.order(na, nb, env)


def typed_params(m):
    if m.get("order"):
        return [m["pos"][j] for j in m["order"]]
    return m["kw"] + m["pos"][1:] if m["kw"] else m["pos"]


def resolve(methods, call, env):
    app = []
    for m in methods:
        vs = [applicable1(p["ann"], v, env) for p, v in zip(typed_params(m), call)]
        if any(v is None for v in vs):
            return ("unspec", "applicability")
        if all(vs):
            app.append(m)
    if not app:
        return ("nomethod",)
    unknown = False
    for a in app:
        ok, unk = True, False
        for b in app:
            if b is a:
                continue
            os_ = [order1(p["ann"], q["ann"], env) for p, q in zip(typed_params(a), typed_params(b))]
            if any(o in (S.MORE, S.NONE) for o in os_):
                ok = False
                break
            if any(o == S.UNSPEC for o in os_):
                unk = True
                continue
            if all(o == S.SAME for o in os_):
                if not a["id"] > b["id"]:
                    ok = False
                    break
        if ok and not unk:
            return ("method", a["id"])
        if ok and unk:
            unknown = True
    return ("unspec", "order") if unknown else ("ambiguous",)


# ----------------------------------------------------------------------------- executor


def run_case(spec):
    res = R.CaseResult()
    env = H.build(HIER)
    real_methods = spec["methods"]
    # the model reads typing.Any inside an annotation as object
    methods = [dict(m, pos=[dict(p, ann=strip_any(p["ann"])) for p in m["pos"]],
                    kw=[dict(p, ann=strip_any(p["ann"])) for p in m["kw"]]) for m in real_methods]
    kwmode = spec.get("kwmode")
    router = None
    all_methods = real_methods
    if spec.get("router") and not kwmode:
        npos = len(methods[0]["pos"])
        rid = max(m["id"] for m in methods) + 1
        if spec.get("swap"):
            rpos = [{"name": f"x{rid}", "ann": ["cls", "K4"]}, {"name": "t", "ann": ["obj"]}]
        else:
            rpos = [{"name": "a0", "ann": ["cls", "K4"]}] + ([{"name": "a1", "ann": ["obj"]}] if npos == 2 else [])
        router = {"id": rid, "pos": rpos, "kw": [], "prio": 10,
                  "sites": [{"fn": "recurse", "npos": npos, "kws": []}, {"fn": "recurse", "npos": npos, "kws": [], "star": True},
                            {"fn": "call_next", "npos": npos, "kws": []}, {"fn": "call_next", "npos": npos, "kws": [], "star": True}]}
        if not spec.get("swap"):
            # ... and with the (uniformly named) parameters handed on by keyword: the type still travels as a type
            names = ["a0", "a1"][:npos]
            router["sites"] += [{"fn": "recurse", "npos": 0, "kws": names, "bykw": True},
                                {"fn": "call_next", "npos": 0, "kws": names, "bykw": True},
                                {"fn": "recurse", "npos": npos - 1, "kws": names[npos - 1:], "bykw": True}]
        all_methods = real_methods + [router]
    try:
        spelling = {f"{m['id']}_{p['name']}": {"union": spec.get("union_spelling", "typing")}
                    for m in all_methods for p in m["pos"] + m["kw"]}
        prog = Program({"hier": HIER, "methods": all_methods, "host": spec.get("host", "func")}, env=env, spelling=spelling)
    except Exception as e:  # noqa: BLE001
        res.fail(f"program construction failed: {type(e).__name__}: {e}", None)
        return res
    plain_methods = [m for m in methods if all(p["ann"][0] != "type" for p in m["pos"] + m["kw"])]
    prog2 = Program({"hier": HIER, "methods": plain_methods, "host": "func"}, env=env) if plain_methods else None
    try:
        related = False
        tanns = [typed_params(m)[0]["ann"] for m in methods
                 if typed_params(m)[0]["ann"][0] == "type" and len(typed_params(m)[0]["ann"]) == 2]
        for i, a in enumerate(tanns):
            for b in tanns[i + 1:]:
                if order1(a, b, env) in (S.LESS, S.MORE):
                    related = True
        for call in spec["calls"]:
            args = [build_passed(v, env) for v in call]
            exp = resolve(methods, call, env)
            kws = {}
            if kwmode:
                kws, args = {"t": args[0]}, [0]
            if spec.get("swap"):
                args = args[::-1]
            out = prog.call(args, kws)
            got = ("method", out.value.mid) if out.kind == "ok" else ("nomethod",) if out.kind == "rejected" else (out.kind,)
            res.label("exp:" + exp[0], "passed:" + call[0][0])
            if out.kind in ("other", "badcall"):
                res.fail(f"call {call}: {out.brief()}", "C14:" + out.kind)
                continue
            if exp[0] == "unspec":
                res.skipped.append("unspec:" + exp[1])
            elif got != exp:
                res.fail(f"call {call}: expected {exp}, got {got} ({out.detail[:160]}); annotations "
                         f"{[[p['ann'] for p in typed_params(m)] for m in methods]} kw-only={bool(kwmode)}", None)
            if router is not None and out.kind in ("ok", "rejected", "nomethod", "ambiguous"):
                # delivered from inside the router method: same resolution as the direct call
                norm = lambda k: "nomethod" if k == "rejected" else k  # noqa: E731
                rargs = [S.build_value(["inst", "K4"], env)] + [0] * (len(args) - 1)
                for k, site in enumerate(router["sites"]):
                    rkw = {n: args[["a0", "a1"].index(n)] for n in site["kws"]} if site.get("bykw") else None
                    o3 = prog.call(rargs, {}, script=[["site", k, "raw", {}]], raw_site_args=args, raw_site_kwargs=rkw)
                    g3 = (norm(o3.kind), o3.value.mid if o3.kind == "ok" else None)
                    g1 = (norm(out.kind), out.value.mid if out.kind == "ok" else None)
                    res.label("via:" + site["fn"] + ("*" if site.get("star") else "") + ("-by-keyword" if site.get("bykw") else ""))
                    if g3 != g1:
                        res.fail(f"call {call} forwarded by {site['fn']}({'*args' if site.get('star') else 'args'}"
                                 f"{' by keyword ' + str(site['kws']) if site.get('bykw') else ''}) from a "
                                 f"{'method with self' if prog.is_method else 'function'} on an unrelated class: {g3} "
                                 f"({o3.detail[:120]}), direct call: {g1}; annotations "
                                 f"{[[p['ann'] for p in typed_params(m)] for m in methods]}", None)
                        break
            if as_inner(call[0]) is None and prog2 is not None:
                o2 = prog2.call(args, kws)
                g2 = ("method", o2.value.mid) if o2.kind == "ok" else ("nomethod",) if o2.kind == "rejected" else (o2.kind,)
                if g2 != got:
                    res.fail(f"ordinary call {call}: {got} with the type[...] methods present, {g2} without them", None)
            if related and call[0][0] == "genobj":
                res.nontrivial = True
    finally:
        prog.close()
        if prog2 is not None:
            prog2.close()
    return res


class Check:
    id = "C14"
    level = "exploration"
    rule = (
        "Hypothesis: 1-6 methods whose first parameter is type[class] / type[generic (nested)] / bare type / object / an "
        "ordinary class, optionally a second ordinary parameter; 2-8 calls passing classes, parametrised generics "
        "(builtin and typing spellings, nested), typing.Any and ordinary instances. Outcome compared with a subtype-"
        "based reference model; ordinary calls additionally compared with the same set minus every type[...] method; 2 cases "
        "in 3 also forward every call through 4 recurse / call_next sites (static, starred) of a router method, hosts "
        "func / attr / OvldBase, and compare with the direct call; passed generics include typing.Any at nested slots and "
        "non-class arguments (None, the ... of a variadic tuple); ordinary arguments include instances carrying __origin__. "
        "Non-trivial = >=2 type[...] methods related by subtyping and a parametrised generic passed; distinct by case hash."
    )
    assumptions = [
        "unspecified (skipped): a bare class against a parametrised annotation of its own origin; generics of "
        "different origins; bare class vs parametrised generic of another origin; unequal argument counts",
        "union objects (int | str) as arguments are outside the stated domain",
    ]

    def tasks(self, tier, seed):
        per = 250 if tier == "quick" else 5000
        return [{"kind": "rand", "seed": seed * 1000 + i, "n": per} for i in range(16)]

    def run_task(self, task):
        st = R.Stats()
        R.run_given(st, case_strategy(), run_case, task["seed"], task["n"], R.open_signatures(self.id))
        return st

    def run_case(self, spec):
        return run_case(spec)


CHECK = Check()

if __name__ == "__main__":
    sys.exit(R.main("checks.c14"))
