"""C07, family 'linked': f.next / call_next in an ovld that FOLLOWS another one, across a history of changes.

base = Ovld(); child = base.copy(linkback=True) (or Ovld(mixins=[base], linkback=True) / base.variant(..., linkback=True)).
Methods over a linear class chain object > K0 > K1 > K2 > K3 (plus an unrelated class U); every type is owned by base
or by child; every method logs its id and delegates with the SAME argument through one of: call_next(x) (both
owners), child.next(x) directly, from a generator expression, from a lambda, from a helper function, from a nested
lambda inside a comprehension (child-owned methods).  History: register / unregister on base, register / unregister
on child, an explicit child.compile(), calls.  Whatever happened before, a call with an instance of Kt must enter the
present methods whose type is an ancestor-or-self of Kt, most specific first, each exactly once, and end with the
'No method' TypeError below the last one (the linear chain makes the resolution order total, so the oracle is a sort).
"""
import linecache

from vlib import runner as R
from vlib.prog import install_source

NCLS = 5  # index 0 = object, 1..4 = K0..K3 (Kj derives from Kj-1)
FORMS = ("call_next", "direct", "genexp", "lambda", "helper", "lambda-in-comp")
MAKERS = ("copy", "mixins", "variant")


def strategy(st):
    @st.composite
    def _linked(draw):
        depth = draw(st.sampled_from([1, 1, 2]))
        pool = ["base", "child", "child"] + (["mid"] if depth == 2 else [])
        owners = [draw(st.sampled_from(pool)) for _ in range(NCLS)]
        if "child" not in owners:
            owners[draw(st.integers(0, NCLS - 1))] = "child"
        forms = [draw(st.sampled_from(FORMS if o == "child" else ("call_next",))) for o in owners]
        present = [draw(st.booleans()) for _ in range(NCLS)]
        if not any(p and o == "base" for p, o in zip(present, owners)):
            # the followed ovld needs one method of its own to exist as a function: the unrelated class U
            pass
        maker = draw(st.sampled_from(MAKERS))
        ops = []
        for _ in range(draw(st.integers(3, 14))):
            k = draw(st.integers(0, 9))
            if k <= 4:
                ops.append(["call", draw(st.integers(0, NCLS - 1))])
            elif k <= 7:
                ops.append(["toggle", draw(st.integers(0, NCLS - 1))])
            elif k == 8:
                ops.append(["toggle-u"])  # a method for the unrelated class on BASE comes / goes: chains unchanged
            else:
                ops.append(["compile-child"])
        ops.append(["call", NCLS - 1])
        return {"family": "linked", "depth": depth, "owners": owners, "forms": forms, "present": present, "maker": maker, "ops": ops}

    return _linked()


def _body(i, owner, form):
    f = "child"
    if form == "call_next":
        d = "call_next(x)"
    elif form == "direct":
        d = f"{f}.next(x)"
    elif form == "genexp":
        d = f"next({f}.next(v) for v in [x])"
    elif form == "lambda":
        d = f"(lambda v: {f}.next(v))(x)"
    elif form == "helper":
        d = f"helper{i}(x)"
    else:
        d = f"[(lambda v: {f}.next(v))(v) for v in [x]][0]"
    pre = f"def helper{i}(v):\n    return child.next(v)\n\n\n" if form == "helper" else ""
    return pre + f"def m{i}(x: T{i}):\n    TRACE.append({i})\n    return {d}\n"


def run_case(spec):
    import ovld

    res = R.CaseResult()
    owners, forms = spec["owners"], spec["forms"]
    classes = [object]
    for j in range(1, NCLS):
        classes.append(type(f"K{j - 1}", (classes[-1],) if j > 1 else (), {}))
    U = type("U", (), {})
    trace = []
    glb = {"TRACE": trace, "call_next": ovld.call_next, "U": U, "U2": type("U2", (), {}), **{f"T{i}": c for i, c in enumerate(classes)}}
    src = "\n\n".join(_body(i, owners[i], forms[i]) for i in range(NCLS))
    src += "\n\ndef mu(x: U):\n    TRACE.append('u')\n    return 'u'\n\n\ndef seedm(x: U2):\n    return 'seed'\n"
    fname = install_source(src, tag="verif-c07-linked")
    try:
        exec(compile(src, fname, "exec"), glb, glb)
        base = ovld.Ovld(name="base")
        base.register(glb["seedm"])  # never applicable to the calls below
        present = [False] * NCLS
        for i in range(NCLS):
            if spec["present"][i] and owners[i] == "base":
                base.register(glb[f"m{i}"])
                present[i] = True
        parent = base
        mid = None
        if spec.get("depth", 1) == 2:
            # an intermediate follower: child follows mid, mid follows base
            parent = mid = base.copy(linkback=True)
            for i in range(NCLS):
                if spec["present"][i] and owners[i] == "mid":
                    mid.register(glb[f"m{i}"])
                    present[i] = True
            res.label("linked-through-an-intermediate-follower")
        if spec["maker"] == "copy":
            child = parent.copy(linkback=True)
        elif spec["maker"] == "mixins":
            child = ovld.Ovld(mixins=[parent], linkback=True, name="child")
        else:
            child = parent.variant(glb["mu"], linkback=True)
            child.unregister(glb["mu"])
        glb["child"] = child
        for i in range(NCLS):
            if spec["present"][i] and owners[i] == "child":
                child.register(glb[f"m{i}"])
                present[i] = True
        by_owner = {"base": base, "mid": mid, "child": child}
        u_present = False
        changed_base_after_use = used = False
        for step, op in enumerate(spec["ops"]):
            if op[0] == "toggle":
                i = op[1]
                ov = by_owner[owners[i]]
                (ov.unregister if present[i] else ov.register)(glb[f"m{i}"])
                present[i] = not present[i]
                if owners[i] != "child" and used:
                    changed_base_after_use = True
            elif op[0] == "toggle-u":
                (base.unregister if u_present else base.register)(glb["mu"])
                u_present = not u_present
                if used:
                    changed_base_after_use = True
            elif op[0] == "compile-child":
                child.compile()
            else:
                t = op[1]
                expect = [i for i in range(t, -1, -1) if present[i]]
                del trace[:]
                try:
                    out = ("ok", child(classes[t]() if t else object()))
                except TypeError as e:
                    out = ("nomethod",) if "No method" in str(e) else ("TypeError", str(e)[:100])
                except RecursionError:
                    out = ("RecursionError",)
                except Exception as e:  # noqa: BLE001
                    out = (type(e).__name__, str(e)[:100])
                got = list(trace)
                used = used or bool(got)
                nested = any(forms[i] not in ("call_next", "direct") for i in expect)
                res.label(f"linked-chain-len:{min(len(expect), 4)}")
                if nested and changed_base_after_use:
                    res.label("nested-frame-next-after-followed-ovld-changed")
                    if len(expect) >= 2:
                        res.nontrivial = True
                if got != expect or out != ("nomethod",):
                    res.fail(f"linked ovld ({spec['maker']}), step {step} call with K{t - 1 if t else 'object'}: bodies entered {got[:12]}, "
                             f"expected {expect} then 'No method'; ended {out}; forms={forms} owners={owners}", None)
                    break
    finally:
        linecache.cache.pop(fname, None)
    return res
