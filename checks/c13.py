"""C13 - type-level matching agrees with the documented meaning of each (non value-dependent) type.

(a) applicability: for a generated static type T (classes, ABCs, protocols, Union, Intersection, Exactly,
    StrictSubclass, HasMethod nested to depth 3) and every class c of a corpus: "a method declared on T
    is applicable to an instance of c" - observed three ways: dispatch of {T -> hit, object@-1 -> fallback},
    subclasscheck(c, T), isinstance(c(), T) - equals vlib.spec.accepts_type(T, c) (hand-written meaning).
(b) Deferred["mod.Cls"] against tiny modules written to a scratch directory and not yet imported.
(c) laws of subclasscheck: reflexive; equals issubclass on classes; argument-wise covariant on parametrised
    generics; transitive on the monotone fragment (classes, ABCs, protocols, generics, unions, intersections,
    HasMethod) - all pairs / triples of a fixed universe.
"""
import itertools
import os
import shutil
import sys
import tempfile

from vlib import boot  # noqa: F401
from vlib import gen as G
from vlib import hier as H
from vlib import runner as R
from vlib import spec as S
from vlib.outcome import capture

import ovld
from vlib.api import normalize_type, subclasscheck

CORPUS_EXTRA = ["int", "bool", "str", "list", "object", "float", "dict"]


def case_strategy():
    from hypothesis import strategies as st

    @st.composite
    def _case(draw):
        h = draw(H.hierarchies(2, 7))
        knames = H.class_names(h)
        t = draw(G.static_ann(knames, depth=draw(st.sampled_from([1, 2, 2, 3])),
                              extra=("object", "int", "str", "PA", "PB", "Number", "Sequence", "Sized"),
                              kinds=["cls"] * 3 + ["union"] * 3 + ["inter"] * 3 + ["exactly", "strict", "hasmethod"]))
        return {"kind": "apply", "hier": h, "type": t, "amp": draw(st.booleans())}

    return _case()


def depth_of(t):
    if t[0] in ("union", "inter"):
        return 1 + max(depth_of(x) for x in t[1])
    return 1 if t[0] in ("exactly", "strict", "hasmethod") else 0


def run_apply(spec):
    res = R.CaseResult()
    env = H.build(spec["hier"])
    t = spec["type"]
    ann = S.build_ann(t, env, {"union": "ovld", "inter": "amp"} if spec.get("amp") else None)
    log = []

    def hit(x):
        log.append("hit")
        return "hit"

    def fallback(x):
        log.append("fallback")
        return "fallback"

    hit.__annotations__ = {"x": ann}
    fallback.__annotations__ = {"x": object}
    ov = ovld.Ovld()
    ov.register(hit)
    ov.register(fallback, priority=-1)
    f = ov.dispatch
    T = normalize_type(ann, None)
    verdicts = set()
    for cname in H.class_names(spec["hier"]) + CORPUS_EXTRA:
        c = env[cname]
        exp = S.accepts_type(t, c, env)
        if exp is None:
            res.skipped.append("accepts_type-unspecified")
            continue
        verdicts.add(exp)
        v = c()
        out = capture(f, v)
        got_dispatch = out.value == "hit" if out.kind == "ok" else out.brief()
        sc = capture(subclasscheck, c, T)
        got_sc = sc.value if sc.kind == "ok" else sc.brief()
        ii = capture(isinstance, v, T)
        got_ii = ii.value if ii.kind == "ok" else ii.brief()
        if not (got_dispatch is exp and got_sc is exp and got_ii is exp):
            which = [n for n, g in (("dispatch", got_dispatch), ("subclasscheck", got_sc), ("isinstance", got_ii))
                     if g is not exp]
            res.fail(
                f"type {t} vs class {cname}: documented meaning says applicable={exp}; "
                f"dispatch={got_dispatch} subclasscheck={got_sc} isinstance={got_ii}",
                "C13:apply:" + "+".join(which),
            )
    res.nontrivial = depth_of(t) >= 2 and verdicts == {True, False}
    res.label(f"depth:{depth_of(t)}", "top:" + t[0])
    if verdicts == {True, False}:
        res.label("accepts-some-not-all")
    return res


# ----------------------------------------------------------------------------- Deferred

_SCRATCH = {"dir": None, "n": 0}


def run_deferred(spec):
    """spec: {"kind": "deferred", "which": "C"|"D", "n": unique int}"""
    res = R.CaseResult()
    d = _SCRATCH["dir"]
    own = False
    if d is None:
        d = tempfile.mkdtemp(prefix="ovld_c13_")
        own = True
    try:
        _SCRATCH["n"] += 1
        mod = f"vdefmod_{os.getpid()}_{_SCRATCH['n']}_{spec['n']}"
        body = "class C:\n    pass\n\nclass D(C):\n    pass\n\nclass E:\n    pass\n"
        ref_prefix = mod
        if spec.get("layout") == "package":
            os.makedirs(os.path.join(d, mod))
            open(os.path.join(d, mod, "__init__.py"), "w").close()
            with open(os.path.join(d, mod, "zoo.py"), "w") as fh:
                fh.write(body)
            ref_prefix = mod + ".zoo"
        else:
            with open(os.path.join(d, mod + ".py"), "w") as fh:
                fh.write(body)
        sys.path.insert(0, d)
        try:
            from ovld import Deferred

            ann = Deferred[f"{ref_prefix}.{spec['which']}"]

            def hit(x):
                return "hit"

            def fallback(x):
                return "fallback"

            hit.__annotations__ = {"x": ann}
            fallback.__annotations__ = {"x": object}
            ov = ovld.Ovld()
            ov.register(hit)
            ov.register(fallback, priority=-1)
            f = ov.dispatch
            for v in (1, "s", object()):
                o = capture(f, v)
                if o.kind != "ok" or o.value != "fallback":
                    res.fail(f"Deferred[{spec['which']}] before import: f({v!r}) -> {o.brief()}", "C13:deferred")
            if mod in sys.modules:
                res.fail("Deferred imported the module before any instance of it was seen", "C13:deferred-imports")
            import importlib

            m = importlib.import_module(ref_prefix)
            want = {"C": {"C": "hit", "D": "hit", "E": "fallback"}, "D": {"C": "fallback", "D": "hit", "E": "fallback"}}[
                spec["which"]]
            for cname, exp in want.items():
                o = capture(f, getattr(m, cname)())
                if o.kind != "ok" or o.value != exp:
                    res.fail(f"Deferred[{mod}.{spec['which']}] after import: f({cname}()) -> {o.brief()}, expected {exp}",
                             "C13:deferred")
                sc = capture(subclasscheck, getattr(m, cname), ann)
                if sc.kind != "ok" or sc.value is not (exp == "hit"):
                    res.fail(f"subclasscheck({cname}, Deferred[{spec['which']}]) -> {sc.brief()}", "C13:deferred")
            res.nontrivial = True
            res.key = f"deferred:{spec['which']}:{spec['n']}:{spec.get('layout')}"
            res.label("deferred")
        finally:
            sys.path.remove(d)
            for k in [k for k in sys.modules if k == mod or k.startswith(mod + ".")]:
                sys.modules.pop(k, None)
    finally:
        if own:
            shutil.rmtree(d, ignore_errors=True)
    return res


# ----------------------------------------------------------------------------- laws

LAW_HIER = {"classes": [
    {"bases": []}, {"bases": [0]}, {"bases": [0], "marks": ["mA"]}, {"bases": [1, 2]}, {"bases": []},
    {"bases": [], "abc": True, "virt": [6]}, {"bases": [4], "marks": ["mB"]},
]}
_LENV = None


def lenv():
    global _LENV
    if _LENV is None:
        _LENV = H.build(LAW_HIER)
    return _LENV


def law_universe():
    cls = [["cls", f"K{i}"] for i in range(7)] + [["obj"], ["cls", "int"], ["cls", "bool"], ["cls", "PA"],
                                                    ["cls", "Sequence"], ["cls", "list"]]
    gens = []
    for a in cls[:5] + [["obj"]]:
        gens += [["gen", "list", [a]], ["gen", "Sequence", [a]]]
    gens += [["gen", "tuple", [["cls", "K0"]]], ["gen", "tuple", [["cls", "K1"]]], ["gen", "tuple", [["cls", "K1"], ["cls", "int"]]],
             ["gen", "tuple", [["cls", "K0"], ["cls", "int"]]], ["gen", "tuple", [["cls", "K1"], ["cls", "bool"], ["cls", "int"]]],
             ["gen", "dict", [["cls", "K0"], ["cls", "int"]]], ["gen", "dict", [["cls", "K1"], ["cls", "bool"]]],
             ["gen", "list", [["gen", "list", [["cls", "K1"]]]]], ["gen", "list", [["gen", "list", [["cls", "K0"]]]]]]
    comb = []
    for a, b in itertools.combinations(cls[:5], 2):
        comb += [["union", [a, b]], ["inter", [a, b]]]
    comb += [["hasmethod", "mA"], ["hasmethod", "mB"], ["union", [["hasmethod", "mA"], ["cls", "K4"]]],
             ["inter", [["union", [["cls", "K1"], ["cls", "K4"]]], ["cls", "K0"]]]]
    nonmono = [["exactly", "K0"], ["exactly", "K1"], ["strict", "K0"], ["strict", "K1"]]
    return cls, gens, comb, nonmono


def lbuild(t):
    a = S.build_ann(t, lenv(), {"union": "ovld"})
    return a if t[0] == "gen" else normalize_type(a, None)


def run_law(spec):
    res = R.CaseResult()
    ts = spec["types"]
    objs = [lbuild(t) for t in ts]
    res.nontrivial = True
    res.key = "law|" + "|".join(R.canon(t) for t in ts)

    def sc(i, j):
        o = capture(subclasscheck, objs[i], objs[j])
        return o.value if o.kind == "ok" else o.brief()

    if len(ts) == 1:
        if sc(0, 0) is not True:
            res.fail(f"reflexivity: subclasscheck(T, T) = {sc(0, 0)} for {ts[0]}", "C13:law:reflexive")
        return res
    if len(ts) == 2:
        a, b = ts
        ca, cb = (lenv().get(a[1]) if a[0] == "cls" else object if a[0] == "obj" else None,
                  lenv().get(b[1]) if b[0] == "cls" else object if b[0] == "obj" else None)
        if ca is not None and cb is not None:
            res.label("law:classes")
            if sc(0, 1) is not issubclass(ca, cb):
                res.fail(f"subclasscheck({a}, {b}) = {sc(0, 1)} but issubclass says {issubclass(ca, cb)}",
                         "C13:law:classes")
        if a[0] == "gen" and b[0] == "gen":
            oa, ob = lenv()[a[1]], lenv()[b[1]]
            exp = issubclass(oa, ob) and len(a[2]) == len(b[2]) and all(
                capture(subclasscheck, lbuild(x), lbuild(y)).value is True for x, y in zip(a[2], b[2]))
            res.label("law:generic-covariance")
            if sc(0, 1) is not exp:
                res.fail(f"subclasscheck({a}, {b}) = {sc(0, 1)}, argument-wise rule says {exp}", "C13:law:generic")
        return res
    # triples: transitivity on the monotone fragment
    if sc(0, 1) is True and sc(1, 2) is True:
        res.label("law:transitive-premise")
        if sc(0, 2) is not True:
            res.fail(f"transitivity: {ts[0]} <= {ts[1]} <= {ts[2]} but subclasscheck(a, c) = {sc(0, 2)}",
                     "C13:law:transitive")
    return res


def run_late(spec):
    """A class that does NOT satisfy a type when a first function looks at it comes to satisfy it later (a method is
    added, it is registered with an ABC): a function built afterwards must see the new relation."""
    import abc

    res = R.CaseResult()
    from ovld.types import HasMethod

    which = spec["which"]
    K = type("KLate", (), {})
    Abc = abc.ABCMeta("AbcLate", (), {})
    T = {"hasmethod": HasMethod["mLate"], "abc": Abc, "protocol": H.PA}[which]

    def build():
        def hit(x):
            return "hit"

        def fallback(x):
            return "fallback"

        hit.__annotations__ = {"x": T}
        fallback.__annotations__ = {"x": object}
        ov = ovld.Ovld()
        ov.register(hit)
        ov.register(fallback, priority=-1)
        return ov.dispatch

    f1 = build()
    o = capture(f1, K())
    if o.kind != "ok" or o.value != "fallback" or subclasscheck(K, T) is not False:
        res.fail(f"late/{which}: before the change f(K()) -> {o.brief()}, subclasscheck -> {subclasscheck(K, T)}", "C13:late")
        return res
    if which == "hasmethod":
        K.mLate = lambda self: 1
    elif which == "abc":
        Abc.register(K)
    else:
        K.mA = lambda self: 1
    f2 = build()
    o2 = capture(f2, K())
    sc = capture(subclasscheck, K, T)
    ii = capture(isinstance, K(), T)
    if not (o2.kind == "ok" and o2.value == "hit" and sc.value is True and ii.value is True):
        res.fail(f"late/{which}: after the class came to satisfy the type, a NEW function gives {o2.brief()}, "
                 f"subclasscheck {sc.brief()}, isinstance {ii.brief()}", "C13:late")
    res.nontrivial = True
    res.key = f"late:{which}:{spec.get('n')}"
    res.label("late-satisfaction:" + which)
    return res


def run_case(spec):
    k = spec.get("kind")
    if k == "late":
        return run_late(spec)
    if k == "apply":
        return run_apply(spec)
    if k == "deferred":
        return run_deferred(spec)
    return run_law(spec)


class Check:
    id = "C13"
    level = "exploration"
    rule = (
        "(a) Hypothesis: hierarchy (2-7 classes, MI, ABCs with virtual subclasses, protocols) x static type nested to "
        "depth 3 x every corpus class, applicability observed by dispatch, subclasscheck and isinstance vs the "
        "hand-written documented meaning; (b) Deferred against fresh, not-yet-imported scratch modules; (c) the full "
        "pair table (classes, generics) and all triples over the monotone fragment for the subclasscheck laws "
        "(exhaustive for the fixed universe). Non-trivial = T nests >=2 constructors and accepts some but not all "
        "corpus classes (a), every Deferred / law case (b, c); distinct by canonical spec."
    )
    assumptions = [
        "Exactly / StrictSubclass are excluded from transitivity (non-monotone by their documented meaning)",
        "Deferred subclasses living in a different top-level module are unspecified and not probed",
    ]

    def tasks(self, tier, seed):
        per = 400 if tier == "quick" else 15000
        t = [{"kind": "apply", "seed": seed * 1000 + i, "n": per} for i in range(12)]
        t += [{"kind": "deferred", "n": 6 if tier == "quick" else 60, "seed": seed}]
        t += [{"kind": "laws", "shard": i, "nshards": 3} for i in range(3)]
        return t

    def run_task(self, task):
        st = R.Stats()
        sigs = R.open_signatures(self.id)
        if task["kind"] == "apply":
            R.run_given(st, case_strategy(), run_case, task["seed"], task["n"], sigs)
        elif task["kind"] == "deferred":
            d = tempfile.mkdtemp(prefix="ovld_c13_")
            _SCRATCH["dir"] = d
            try:
                specs = [{"kind": "deferred", "which": w, "n": task["seed"] * 1000 + i, "layout": lay}
                         for i in range(task["n"]) for w in ("C", "D") for lay in ("module", "package")]
                specs += [{"kind": "late", "which": w, "n": i} for i in range(3) for w in ("hasmethod", "abc")]  # (protocols: Python's own negative issubclass cache would make this moot)
                R.run_enumerated(st, specs, run_case, sigs)
            finally:
                _SCRATCH["dir"] = None
                shutil.rmtree(d, ignore_errors=True)
        else:
            cls, gens, comb, nonmono = law_universe()
            mono = cls + gens + comb
            specs = []
            if task["shard"] == 0:
                specs += [{"kind": "law", "types": [t]} for t in mono + nonmono]
                specs += [{"kind": "law", "types": [a, b]} for a in cls + gens for b in cls + gens]
            specs += [{"kind": "law", "types": [a, b, c]} for i, a in enumerate(mono)
                      if i % task["nshards"] == task["shard"] for b in mono for c in mono]
            R.run_enumerated(st, specs, run_case, sigs, max_failures=10)
            st.extra["law_universe_types"] = len(mono) if task["shard"] == 0 else 0
        return st

    def run_case(self, spec):
        return run_case(spec)


CHECK = Check()

if __name__ == "__main__":
    sys.exit(R.main("checks.c13"))
