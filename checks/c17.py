"""C17 - overloaded methods in classes merge per class and inherit without leaking.

Generated: class hierarchies as source text - OvldBase / metaclass=OvldMC roots, depth <= 3, multiple bases,
mixin classes without the metaclass (one plain definition), per class 0-4 same-named definitions `f` with an
optional @extend_super on the first one and @ovld(priority=...) on others; bodies log `self`, and some use
recurse (list walker) or call_next.  Instances of every class are probed right after the class is created and
again after all later classes exist.
Model of the documented rules: >= 2 same-named definitions merge; @extend_super on the first definition pulls
the inherited overloads of all bases (base order), own definitions overlay them; otherwise the subclass's
definitions replace; no definition => inherited through the MRO.  Oracle: a reference interpreter over the
model's effective method set; every probe of an earlier class must be identical before and after later
classes are created; `self` must be the instance.
"""
import linecache
import sys

from vlib import boot  # noqa: F401
from vlib import graph as GR
from vlib import hier as H
from vlib import model as M
from vlib import runner as R
from vlib import spec as S
from vlib.outcome import capture
from vlib.prog import install_source

import ovld

HIER = {"classes": [{"bases": []}, {"bases": [0]}, {"bases": []}]}
ANNS = [["cls", "int"], ["cls", "str"], ["obj"], ["cls", "K0"], ["cls", "K1"], ["cls", "K2"], ["cls", "bool"],
        ["cls", "float"]]
VALUES = [["int", 1], ["str", "s"], ["inst", "K0"], ["inst", "K1"], ["inst", "K2"], ["bool", True], ["float", 1.5],
          ["none"], ["list", [["int", 1], ["inst", "K1"], ["str", "q"]]], ["list", [["list", [["bool", False]]]]]]


def case_strategy():
    from hypothesis import strategies as st

    @st.composite
    def _case(draw):
        n = draw(st.integers(2, 6))
        classes = []
        mid = 0
        for i in range(n):
            ovld_classes = [c["id"] for c in classes if c["mc"]]
            plain_classes = [c["id"] for c in classes if not c["mc"]]
            if i == 0 or not ovld_classes or draw(st.integers(0, 5)) == 0:
                mc = i == 0 or draw(st.integers(0, 2)) > 0
                bases = []
            else:
                mc = True
                k = draw(st.sampled_from([1, 1, 1, 2]))
                bases = draw(st.lists(st.sampled_from(ovld_classes), min_size=1, max_size=k, unique=True))
                bases.sort(reverse=True)
                if plain_classes and draw(st.integers(0, 2)) == 0:
                    bases.append(draw(st.sampled_from(plain_classes)))
            defs = []
            if not mc:
                ndefs = 1
            else:
                ndefs = draw(st.sampled_from([0, 2, 2, 3, 4] if bases else [2, 2, 3, 4]))
            ext = bool(bases) and ndefs > 0 and draw(st.integers(0, 3)) > 0
            own = set()
            for j in range(ndefs):
                kind = draw(st.sampled_from(["leaf"] * 5 + ["walk_list", "next"])) if mc else "leaf"
                m = {"id": mid, "kind": kind, "prio": 0}
                if kind != "walk_list":
                    m["ann"] = draw(st.sampled_from(ANNS))
                if mc and not (ext and j == 0) and draw(st.integers(0, 4)) == 0:
                    m["prio"] = draw(st.sampled_from([1, -1]))
                elif mc and ext and j > 0 and draw(st.integers(0, 3)) == 0:
                    m["also_marked"] = True  # a later definition carries the marker too (harmless: same meaning)
                key = (R.canon(GR.method_ann(m) if kind != "next" else m["ann"]), m["prio"])
                if key in own:
                    continue
                own.add(key)
                defs.append(m)
                mid += 1
            if mc and len(defs) == 1 and not ext:
                defs = []  # a single undecorated definition stays a plain function: not generated
            classes.append({"id": i, "mc": mc, "bases": bases, "defs": defs, "ext": ext and bool(defs),
                            "style": draw(st.sampled_from(["OvldBase", "metaclass"]))})
        return {"classes": classes}

    return _case()


def ann_of(m):
    return ["cls", "list"] if m["kind"] == "walk_list" else m["ann"]


def model_method(m):
    return {"id": m["id"], "pos": [{"name": "x", "ann": ann_of(m)}], "kw": [], "prio": m.get("prio", 0)}


def render_class(c, classes):
    lines = []
    if not c["bases"]:
        if not c["mc"]:
            head = f"class C{c['id']}:"
        elif c["style"] == "OvldBase":
            head = f"class C{c['id']}(OvldBase):"
        else:
            head = f"class C{c['id']}(metaclass=OvldMC):"
    else:
        head = f"class C{c['id']}({', '.join('C%d' % b for b in c['bases'])}):"
    lines.append(head)
    lines.append(f"    tag = {c['id']}")
    decorated = any(m.get("prio") for m in c["defs"])
    for j, m in enumerate(c["defs"]):
        if c["ext"] and j == 0:
            lines.append("    @extend_super")
        elif m.get("also_marked") and not decorated:
            lines.append("    @extend_super")
        elif decorated:
            # @ovld(...) looks the name up in the class body and insists on finding an overloaded function there,
            # so once one definition is decorated all of them are
            lines.append(f"    @ovld(priority={m.get('prio', 0)})")
        k = m["id"]
        lines.append(f"    def f(self, x: GA{k}):")
        lines.append(f"        _LOG.append(({k}, self))")
        if m["kind"] == "leaf":
            lines.append(f"        return ('leaf', {k})")
        elif m["kind"] == "walk_list":
            lines.append(f"        return ['L', {k}] + [recurse(a) for a in x]")
        else:
            lines.append(f"        return ('next', {k}, call_next(x))")
    return "\n".join(lines) + "\n"


def overlay(lists):
    out = {}
    for lst in lists:
        for m in lst:
            out[M.sig_key(model_method(m))] = m
    return list(out.values())


def effective(classes):
    """class id -> (effective methods of attribute f, is_plain_function)"""
    eff = {}
    for c in classes:
        base_effs = [eff[b] for b in c["bases"] if eff[b] is not None]
        if not c["defs"]:
            # inherited through the MRO; a plain function inherited from a plain mixin stays a plain function
            eff[c["id"]] = base_effs[0] if base_effs else None
            PLAIN[c["id"]] = PLAIN.get(next((b for b in c["bases"] if eff[b] is not None), None), False)
        elif c["ext"]:
            eff[c["id"]] = overlay(base_effs + [c["defs"]])
            PLAIN[c["id"]] = False
        else:
            eff[c["id"]] = list(c["defs"])
            PLAIN[c["id"]] = not c["mc"]
    return eff


PLAIN = {}


def unsupported(classes):
    """shapes whose meaning the docs do not fix -> the class (and its descendants) is not asserted"""
    bad = set()
    eff = effective(classes)
    for c in classes:
        if any(b in bad for b in c["bases"]):
            bad.add(c["id"])
            continue
        with_f = [b for b in c["bases"] if eff[b] is not None]
        if len(with_f) >= 2 and not c["ext"]:
            bad.add(c["id"])  # several bases carrying overloads, no extend_super in the subclass
        if c["ext"] and len(with_f) >= 2:
            seen = {}
            for b in with_f:
                for m in eff[b]:
                    k = M.sig_key(model_method(m))
                    if k in seen and seen[k] != m["id"]:
                        bad.add(c["id"])  # identical signature from two different bases
                    seen[k] = m["id"]
        if c["ext"] and not with_f:
            pass
    return bad


class RefFail(Exception):
    def __init__(self, kind):
        self.kind = kind


def eval_ref(methods, x, env):
    mm = [model_method(m) for m in methods]
    r = M.resolve(mm, [x], {}, env)
    if r[0] != "method":
        raise RefFail(r[0])
    return apply_ref(methods, next(m for m in methods if m["id"] == r[1]), x, env)


def apply_ref(methods, m, x, env):
    k = m["id"]
    if m["kind"] == "leaf":
        return ("leaf", k)
    if m["kind"] == "walk_list":
        return ["L", k] + [eval_ref(methods, a, env) for a in x]
    # call_next
    mm = [model_method(z) for z in methods]
    ch = M.chain(mm, [x], {}, env)
    for i, r in enumerate(ch):
        if r == ("method", k):
            nxt = ch[i + 1]
            if nxt[0] != "method":
                raise RefFail(nxt[0])
            return ("next", k, apply_ref(methods, next(z for z in methods if z["id"] == nxt[1]), x, env))
    raise RefFail("unspec")


def run_case(spec):
    res = R.CaseResult()
    env = H.build(HIER)
    classes = spec["classes"]
    eff = effective(classes)
    bad = unsupported(classes)
    log = []
    glb = {"__name__": "verifcls", "OvldBase": ovld.OvldBase, "OvldMC": ovld.OvldMC, "ovld": ovld.ovld,
           "extend_super": ovld.extend_super, "recurse": ovld.recurse, "call_next": ovld.call_next, "_LOG": log}
    for c in classes:
        for m in c["defs"]:
            glb[f"GA{m['id']}"] = S.build_ann(ann_of(m), env)
    files = []
    first_obs = {}
    nontrivial = False
    try:
        for ci, c in enumerate(classes):
            src = render_class(c, classes)
            fname = install_source(src, tag="verifc17")
            files.append(fname)
            r = capture(lambda: exec(compile(src, fname, "exec"), glb, glb))
            if r.kind != "ok":
                if c["id"] in bad:
                    res.skipped.append("unsupported-shape-failed-to-build")
                    return res
                res.fail(f"creating class C{c['id']} failed: {r.brief()}\n{src}", None)
                return res
            # probe every class created so far
            for d in classes[: ci + 1]:
                if d["id"] in bad or eff[d["id"]] is None or PLAIN.get(d["id"]):
                    continue
                if not d["mc"] and not any(d["id"] in x["bases"] for x in classes):
                    continue
                inst = glb[f"C{d['id']}"]()
                obs = []
                for vs in VALUES:
                    x = S.build_value(vs, env)
                    if not d["mc"]:
                        continue  # a plain mixin class keeps a plain function
                    try:
                        exp = ("ok", eval_ref(eff[d["id"]], x, env))
                    except RefFail as rf:
                        exp = (rf.kind,)
                    del log[:]
                    out = capture(inst.f, x)
                    got = ("ok", out.value) if out.kind == "ok" else ("nomethod",) if out.kind == "rejected" else (out.kind,)
                    obs.append(got)
                    if exp[0] == "unspec":
                        res.skipped.append("unspec")
                        continue
                    if got != exp:
                        res.fail(
                            f"C{d['id']}().f({vs}) after creating C{c['id']}: got {got}, model says {exp} "
                            f"({out.detail[:160]})\n" + "".join(render_class(z, classes) for z in classes[: ci + 1]),
                            None,
                        )
                        return res
                    if any(s is not inst for _, s in log):
                        res.fail(f"C{d['id']}().f({vs}): a body received a different `self`", None)
                        return res
                key = d["id"]
                if key in first_obs and first_obs[key] != obs:
                    res.fail(f"behaviour of C{d['id']} changed after class C{c['id']} was created: "
                             f"{first_obs[key]} -> {obs}", None)
                    return res
                first_obs.setdefault(key, obs)
                if d["ext"] and (len([b for b in d["bases"] if eff[b] is not None]) >= 2 or any(
                        classes[b]["bases"] for b in d["bases"])) and ci > d["id"]:
                    nontrivial = True
        res.nontrivial = nontrivial
        for c in classes:
            if c["ext"]:
                res.label("extend_super")
            if len(c["bases"]) >= 2:
                res.label("multiple-bases")
        if bad:
            res.label("has-unsupported-class(skipped)")
    finally:
        for f in files:
            linecache.cache.pop(f, None)
        glb.clear()
    return res


class Check:
    id = "C17"
    level = "exploration"
    rule = (
        "Hypothesis: 2-6 generated classes (OvldBase / metaclass=OvldMC roots, depth <= 3, multiple bases, plain mixin "
        "classes), 0-4 same-named definitions each with optional @extend_super / @ovld(priority), bodies with self, "
        "recurse and call_next; every class probed on 10 values right after creation and after every later class. "
        "Oracle: reference interpreter over the documented merge/extend/replace/inherit rules; probes of earlier "
        "classes must not change; self identity. Non-trivial = a class with extend_super over >=2 bases or at depth "
        ">=2 that is probed again after a later class was created; distinct by case hash."
    )
    assumptions = [
        "not asserted (undocumented): several bases carrying overloads without extend_super in the subclass, a single "
        "undecorated definition, extend_super on a non-first definition, identical signatures from two bases",
    ]

    def tasks(self, tier, seed):
        per = 150 if tier == "quick" else 4000
        return [{"kind": "rand", "seed": seed * 1000 + i, "n": per} for i in range(16)]

    def run_task(self, task):
        st = R.Stats()
        R.run_given(st, case_strategy(), run_case, task["seed"], task["n"], R.open_signatures(self.id))
        return st

    def run_case(self, spec):
        return run_case(spec)


CHECK = Check()

if __name__ == "__main__":
    sys.exit(R.main("checks.c17"))
