"""C17 - overloaded methods in classes merge per class and inherit without leaking.

Generated: class hierarchies as source text - OvldBase / metaclass=OvldMC roots, depth <= 3, multiple bases,
mixin classes without the metaclass (one plain definition), per class 0-4 same-named definitions `f` with an
optional @extend_super on one of them (any position) and @ovld(priority=...) on others; bodies log `self`, and some use
recurse (list walker) or call_next.  Instances of every class are probed right after the class is created and
again after all later classes exist.
Model of the documented rules: >= 2 same-named definitions merge; @extend_super on the first definition pulls
the inherited overloads of all bases (base order), own definitions overlay them; otherwise the subclass's
definitions replace; no definition => inherited through the MRO.  Oracle: a reference interpreter over the
model's effective method set; every probe of an earlier class must be identical before and after later
classes are created; `self` must be the instance.
"""
import linecache
import sys

from vlib import boot  # noqa: F401
from vlib import graph as GR
from vlib import hier as H
from vlib import model as M
from vlib import runner as R
from vlib import spec as S
from vlib.outcome import capture
from vlib.prog import install_source

import ovld

HIER = {"classes": [{"bases": []}, {"bases": [0]}, {"bases": []}]}
ANNS = [["cls", "int"], ["cls", "str"], ["obj"], ["cls", "K0"], ["cls", "K1"], ["cls", "K2"], ["cls", "bool"],
        ["cls", "float"]]
VALUES = [["int", 1], ["str", "s"], ["inst", "K0"], ["inst", "K1"], ["inst", "K2"], ["bool", True], ["float", 1.5],
          ["none"], ["list", [["int", 1], ["inst", "K1"], ["str", "q"]]], ["list", [["list", [["bool", False]]]]]]


def case_strategy():
    from hypothesis import strategies as st

    @st.composite
    def _mixin_case(draw):
        """the create_subclass / mixin pattern of the test-suite: an overloading class combined with plain mixin classes
        whose method is announced with @extend_super - defined by the mixin itself or only inherited by it"""
        anns = draw(st.permutations(ANNS))
        k = [0]

        def leaf(a, prio=0):
            k[0] += 1
            return {"id": k[0] - 1, "kind": "leaf", "prio": prio, "ann": a}

        classes = [{"id": 0, "mc": True, "bases": [], "defs": [leaf(anns[0]), leaf(anns[1])], "ext": False, "marked": False,
                    "style": draw(st.sampled_from(["OvldBase", "metaclass"]))},
                   {"id": 1, "mc": False, "bases": [], "defs": [leaf(anns[2])], "ext": False, "marked": True, "style": "OvldBase"}]
        last_plain = 1
        if draw(st.booleans()):
            classes.append({"id": 2, "mc": False, "bases": [1], "defs": [], "ext": False, "marked": False, "style": "OvldBase"})
            last_plain = 2
        if draw(st.booleans()):
            i = len(classes)
            classes.append({"id": i, "mc": False, "bases": [], "defs": [leaf(anns[3])], "ext": False,
                            "marked": draw(st.booleans()), "style": "OvldBase"})
            extra = [i]
        else:
            extra = []
        second = []
        if draw(st.integers(0, 2)) == 0:
            # a second, independent overloading class (not marked) listed between the first base and the mixins
            i = len(classes)
            classes.append({"id": i, "mc": True, "bases": [], "defs": [leaf(anns[6]), leaf(anns[7])], "ext": False,
                            "marked": False, "style": "OvldBase"})
            second = [i]
        i = len(classes)
        own = [leaf(anns[4]), leaf(anns[5])] if draw(st.integers(0, 2 if not second else 1)) == 0 else []
        classes.append({"id": i, "mc": True, "bases": [0] + second + [last_plain] + extra, "defs": own,
                        "ext": bool(own) and draw(st.booleans()), "marked": False, "style": "OvldBase",
                        "mark_at": draw(st.integers(0, 1)) if own else 0})
        if draw(st.booleans()):
            classes.append({"id": i + 1, "mc": True, "bases": [i], "defs": [leaf(anns[3] if not extra else anns[2]), leaf(anns[0], 1)],
                            "ext": draw(st.booleans()), "marked": False, "style": "OvldBase"})
        return {"classes": classes}

    @st.composite
    def _diamond_case(draw):
        """a root, two subclasses of it (one or both extending, the marker anywhere among decorated definitions) and
        classes that list both of them - defining nothing, or extending: what the first two did with their markers
        must not reach the classes below them"""
        anns = draw(st.permutations(ANNS))
        k = [0]

        def leaf(a, prio=0):
            k[0] += 1
            return {"id": k[0] - 1, "kind": "leaf", "prio": prio, "ann": a}

        def cls(i, bases, defs, ext):
            return {"id": i, "mc": True, "bases": bases, "defs": defs, "ext": ext and bool(defs), "marked": False,
                    "style": "OvldBase", "sparse_deco": draw(st.booleans()), "stack_mark": draw(st.booleans()),
                    "mark_at": draw(st.integers(0, max(0, len(defs) - 1))) if ext else 0}

        classes = [cls(0, [], [leaf(anns[0]), leaf(anns[1])], False)]
        for i in (1, 2):
            n = draw(st.integers(2, 3))
            prios = draw(st.lists(st.sampled_from([0, 0, 1, -1]), min_size=n, max_size=n))
            ext = draw(st.integers(0, 3)) > 0
            if ext:
                prios[0] = 0
            defs = [leaf(draw(st.sampled_from(anns[2:6])), prios[j]) for j in range(n)]
            seen, out = set(), []
            for m in defs:
                key = (R.canon(m["ann"]), m["prio"])
                if key not in seen:
                    seen.add(key)
                    out.append(m)
            if len(out) == 1 and not ext:
                out = []
            classes.append(cls(i, [0], out, ext))
        order = draw(st.sampled_from([[1, 2], [2, 1]]))
        classes.append(cls(3, order, [], False))
        if draw(st.booleans()):
            classes.append(cls(4, order[::-1], [leaf(anns[6]), leaf(anns[7])], True))
        return {"classes": classes}

    @st.composite
    def _case(draw):
        if draw(st.integers(0, 5)) == 0:
            return draw(_mixin_case())
        if draw(st.integers(0, 5)) == 0:
            return draw(_diamond_case())
        n = draw(st.integers(2, 6))
        classes = []
        mid = 0
        for i in range(n):
            ovld_classes = [c["id"] for c in classes if c["mc"]]
            plain_classes = [c["id"] for c in classes if not c["mc"]]
            if i == 0 or not ovld_classes or draw(st.integers(0, 2)) == 0:
                mc = i == 0 or draw(st.booleans())
                bases = []
                if not mc and plain_classes and draw(st.booleans()):
                    bases = [draw(st.sampled_from(plain_classes))]  # a plain class deriving from a plain mixin
            else:
                mc = True
                k = draw(st.sampled_from([1, 1, 1, 2]))
                bases = draw(st.lists(st.sampled_from(ovld_classes), min_size=1, max_size=k, unique=True))
                bases.sort(reverse=True)
                if plain_classes and draw(st.booleans()):
                    for pc in draw(st.lists(st.sampled_from(plain_classes), min_size=1, max_size=2, unique=True)):
                        bases.append(pc)
            # never list a class together with one of its own ancestors (no consistent MRO)
            def ancestors(b):
                out = set()
                for x in classes[b]["bases"]:
                    out |= {x} | ancestors(x)
                return out

            bases = [b for b in bases if not any(b in ancestors(o) for o in bases if o != b)]
            defs = []
            if not mc:
                ndefs = 0 if (bases and draw(st.booleans())) else 1
            else:
                ndefs = draw(st.sampled_from([0, 2, 2, 3, 4] if bases else [2, 2, 3, 4]))
            ext = bool(bases) and ndefs > 0 and draw(st.integers(0, 3)) > 0
            own = set()
            for j in range(ndefs):
                kind = draw(st.sampled_from(["leaf"] * 5 + ["walk_list", "next"])) if mc else "leaf"
                m = {"id": mid, "kind": kind, "prio": 0}
                if kind != "walk_list":
                    m["ann"] = draw(st.sampled_from(ANNS))
                if mc and not (ext and j == 0) and draw(st.integers(0, 4)) == 0:
                    m["prio"] = draw(st.sampled_from([1, -1]))
                elif mc and ext and j > 0 and draw(st.integers(0, 3)) == 0:
                    m["also_marked"] = True  # a later definition carries the marker too (harmless: same meaning)
                key = (R.canon(GR.method_ann(m) if kind != "next" else m["ann"]), m["prio"])
                if key in own:
                    continue
                own.add(key)
                defs.append(m)
                mid += 1
            if mc and len(defs) == 1 and not ext:
                defs = []  # a single undecorated definition stays a plain function: not generated
            marked = (not mc) and bool(defs) and draw(st.integers(0, 3)) > 0  # a mixin class announcing `@extend_super`
            classes.append({"id": i, "mc": mc, "bases": bases, "defs": defs, "ext": ext and bool(defs), "marked": marked,
                            "style": draw(st.sampled_from(["OvldBase", "metaclass"])),
                            "sparse_deco": draw(st.booleans()),
                            "stack_mark": draw(st.booleans()),
                            # which of the same-named definitions carries the marker (any of them may)
                            "mark_at": draw(st.integers(0, len(defs) - 1)) if (ext and defs and draw(st.integers(0, 2)) == 0) else 0})
        return {"classes": classes}

    return _case()


def ann_of(m):
    return ["cls", "list"] if m["kind"] == "walk_list" else m["ann"]


def model_method(m):
    return {"id": m["id"], "pos": [{"name": "x", "ann": ann_of(m)}], "kw": [], "prio": m.get("prio", 0)}


def render_class(c, classes):
    lines = []
    if not c["bases"]:
        if not c["mc"]:
            head = f"class C{c['id']}:"
        elif c["style"] == "OvldBase":
            head = f"class C{c['id']}(OvldBase):"
        else:
            head = f"class C{c['id']}(metaclass=OvldMC):"
    else:
        head = f"class C{c['id']}({', '.join('C%d' % b for b in c['bases'])}):"
    lines.append(head)
    lines.append(f"    tag = {c['id']}")
    decorated = any(m.get("prio") for m in c["defs"])
    stack = c["ext"] and decorated and c.get("stack_mark") and 0 < c.get("mark_at", 0) < len(c["defs"])
    for j, m in enumerate(c["defs"]):
        if stack and j == c["mark_at"]:
            # the spelling of tests/test_ovld.py::test_metaclass_dispatch_2, on a later definition of the name
            lines.append("    @extend_super")
            lines.append(f"    @ovld(priority={m.get('prio', 0)})")
        elif not stack and ((c["ext"] and j == (c.get("mark_at", 0) if not decorated else 0))
                            or (c.get("marked") and not c["ext"] and j == 0)):
            lines.append("    @extend_super")
        elif m.get("also_marked") and not decorated:
            lines.append("    @extend_super")
        elif decorated and (m.get("prio") or not c.get("sparse_deco")):
            # @ovld(priority=...) on every definition, or (sparse_deco) only on those that need a priority - in
            # whatever position they come, also after plain definitions
            lines.append(f"    @ovld(priority={m.get('prio', 0)})")
        k = m["id"]
        lines.append(f"    def f(self, x: GA{k}):")
        lines.append(f"        _LOG.append(({k}, self))")
        if m["kind"] == "leaf":
            lines.append(f"        return ('leaf', {k})")
        elif m["kind"] == "walk_list":
            lines.append(f"        return ['L', {k}] + [recurse(a) for a in x]")
        else:
            lines.append(f"        return ('next', {k}, call_next(x))")
    return "\n".join(lines) + "\n"


def overlay(lists):
    out = {}
    for lst in lists:
        for m in lst:
            out[M.sig_key(model_method(m))] = m
    return list(out.values())


def c3(cid, by_id, memo):
    """C3 linearisation over class ids (Python's MRO)"""
    if cid in memo:
        return memo[cid]
    bases = by_id[cid]["bases"]
    seqs = [list(c3(b, by_id, memo)) for b in bases] + [list(bases)]
    out = [cid]
    while any(seqs):
        for q in seqs:
            if q and not any(q[0] in r[1:] for r in seqs):
                head = q[0]
                break
        else:
            raise ValueError("no consistent MRO")
        out.append(head)
        for q in seqs:
            if q and q[0] == head:
                del q[0]
    memo[cid] = out
    return out


def effective(classes):
    """class id -> effective methods of attribute f (None = no such attribute).  KIND[id] says what the attribute is:
    "ovld" (an overloaded method), "flagged" (a plain mixin's method announced with @extend_super: an overloaded
    function that asks to be merged), "plain" (an ordinary function: no dispatch at all).
    Follows ovld's documented class rules: see the module docstring; the multi-base merge at class creation
    (tests/test_ovld.py::test_multiple_inherit_2) happens when a LATER base carries a flagged method."""
    eff = {}
    KIND.clear()
    MERGED.clear()
    by_id = {c["id"]: c for c in classes}
    for c in classes:
        cid = c["id"]
        with_f = [b for b in c["bases"] if eff[b] is not None]
        if not c["mc"]:
            if c["defs"]:
                eff[cid] = list(c["defs"])
                KIND[cid] = "flagged" if (c.get("marked") or c.get("ext")) else "plain"  # (either renders the decorator)
            else:
                eff[cid] = eff[with_f[0]] if with_f else None
                KIND[cid] = KIND[with_f[0]] if with_f else None
            continue
        # class creation pre-merge: the first overloaded base + later FLAGGED bases + plain-function bases
        ovl = [b for b in with_f if KIND[b] in ("ovld", "flagged", "pending")]
        pre = None
        if len(ovl) >= 2 and any(KIND[b] == "flagged" for b in ovl[1:]):
            later = [b for b in ovl[1:] if KIND[b] == "flagged"]
            plains = [b for b in with_f if KIND[b] == "plain"]
            pre = overlay([eff[ovl[0]]] + [eff[b] for b in later] + [eff[b] for b in plains])
        if pre is not None and c["ext"] and c["defs"]:
            # an own @extend_super definition on top of the pre-merge: all bases, as the statement says
            eff[cid] = overlay([eff[b] for b in with_f] + [c["defs"]])
            KIND[cid] = "ovld"
            MERGED.add(cid)
        elif pre is not None:
            eff[cid] = overlay([pre, c["defs"]])
            KIND[cid] = "ovld"
            MERGED.add(cid)
        elif not c["defs"]:
            # nothing defined, nothing merged: plain attribute lookup through the MRO
            own = [k for k in c3(cid, by_id, {})[1:] if by_id[k]["defs"] or k in MERGED]
            eff[cid] = eff[own[0]] if own else None
            KIND[cid] = KIND[own[0]] if own else None
        elif c["ext"]:
            eff[cid] = overlay([eff[b] for b in with_f] + [c["defs"]])
            # with no inherited method to pull, the marker may stay on the attribute ("pending"): what a later
            # multi-base class makes of it is not documented
            KIND[cid] = "ovld" if with_f else "pending"
        else:
            eff[cid] = list(c["defs"])
            KIND[cid] = "ovld"
    PLAIN.clear()
    PLAIN.update({k: v == "plain" for k, v in KIND.items()})
    return eff


PLAIN = {}
KIND = {}
MERGED = set()


def unsupported(classes):
    """shapes whose meaning the docs do not fix -> the class (and its descendants) is not asserted"""
    bad = set()
    eff = effective(classes)
    kind = dict(KIND)
    for c in classes:
        if any(b in bad for b in c["bases"]):
            bad.add(c["id"])
            continue
        if not c["mc"]:
            continue
        with_f = [b for b in c["bases"] if eff[b] is not None]
        ovl = [b for b in with_f if kind[b] in ("ovld", "flagged", "pending")]
        merged = len(ovl) >= 2 and any(kind[b] == "flagged" for b in ovl[1:])
        if len(with_f) >= 2 and any(kind[b] == "pending" for b in with_f):
            bad.add(c["id"])  # a base whose extend_super marker found nothing to extend
            continue
        if len(with_f) >= 2 and not c["ext"] and not merged and c["defs"]:
            bad.add(c["id"])  # several bases carrying overloads, own definitions, nothing asks for a merge
        if (c["ext"] or merged) and len(with_f) >= 2:
            seen = {}
            for b in with_f:
                for m in eff[b]:
                    k = M.sig_key(model_method(m))
                    if k in seen and seen[k] != m["id"]:
                        bad.add(c["id"])  # identical signature from two different bases
                    seen[k] = m["id"]
    return bad


class RefFail(Exception):
    def __init__(self, kind):
        self.kind = kind


def eval_ref(methods, x, env):
    mm = [model_method(m) for m in methods]
    r = M.resolve(mm, [x], {}, env)
    if r[0] != "method":
        raise RefFail(r[0])
    return apply_ref(methods, next(m for m in methods if m["id"] == r[1]), x, env)


def apply_ref(methods, m, x, env):
    k = m["id"]
    if m["kind"] == "leaf":
        return ("leaf", k)
    if m["kind"] == "walk_list":
        return ["L", k] + [eval_ref(methods, a, env) for a in x]
    # call_next
    mm = [model_method(z) for z in methods]
    ch = M.chain(mm, [x], {}, env)
    for i, r in enumerate(ch):
        if r == ("method", k):
            nxt = ch[i + 1]
            if nxt[0] != "method":
                raise RefFail(nxt[0])
            return ("next", k, apply_ref(methods, next(z for z in methods if z["id"] == nxt[1]), x, env))
    raise RefFail("unspec")


def run_case(spec):
    res = R.CaseResult()
    env = H.build(HIER)
    classes = spec["classes"]
    eff = effective(classes)
    bad = unsupported(classes)
    log = []
    glb = {"__name__": "verifcls", "OvldBase": ovld.OvldBase, "OvldMC": ovld.OvldMC, "ovld": ovld.ovld,
           "extend_super": ovld.extend_super, "recurse": ovld.recurse, "call_next": ovld.call_next, "_LOG": log}
    for c in classes:
        for m in c["defs"]:
            glb[f"GA{m['id']}"] = S.build_ann(ann_of(m), env)
    files = []
    first_obs = {}
    nontrivial = False
    try:
        for ci, c in enumerate(classes):
            src = render_class(c, classes)
            fname = install_source(src, tag="verifc17")
            files.append(fname)
            r = capture(lambda: exec(compile(src, fname, "exec"), glb, glb))
            if r.kind != "ok":
                if c["id"] in bad:
                    res.skipped.append("unsupported-shape-failed-to-build")
                    return res
                res.fail(f"creating class C{c['id']} failed: {r.brief()}\n{src}", None)
                return res
            # probe every class created so far
            for d in classes[: ci + 1]:
                if d["id"] in bad or eff[d["id"]] is None or PLAIN.get(d["id"]):
                    continue
                if not d["mc"]:
                    continue  # plain mixin classes are only observed through the overloading classes that use them
                inst = glb[f"C{d['id']}"]()
                obs = []
                for vs in VALUES:
                    x = S.build_value(vs, env)
                    if not d["mc"]:
                        continue  # a plain mixin class keeps a plain function
                    try:
                        exp = ("ok", eval_ref(eff[d["id"]], x, env))
                    except RefFail as rf:
                        exp = (rf.kind,)
                    del log[:]
                    out = capture(inst.f, x)
                    got = ("ok", out.value) if out.kind == "ok" else ("nomethod",) if out.kind == "rejected" else (out.kind,)
                    obs.append(got)
                    if exp[0] == "unspec":
                        res.skipped.append("unspec")
                        continue
                    if got != exp:
                        res.fail(
                            f"C{d['id']}().f({vs}) after creating C{c['id']}: got {got}, model says {exp} "
                            f"({out.detail[:160]})\n" + "".join(render_class(z, classes) for z in classes[: ci + 1]),
                            None,
                        )
                        return res
                    if any(s is not inst for _, s in log):
                        res.fail(f"C{d['id']}().f({vs}): a body received a different `self`", None)
                        return res
                key = d["id"]
                if key in first_obs and first_obs[key] != obs:
                    res.fail(f"behaviour of C{d['id']} changed after class C{c['id']} was created: "
                             f"{first_obs[key]} -> {obs}", None)
                    return res
                first_obs.setdefault(key, obs)
                if d["ext"] and (len([b for b in d["bases"] if eff[b] is not None]) >= 2 or any(
                        classes[b]["bases"] for b in d["bases"])) and ci > d["id"]:
                    nontrivial = True
        res.nontrivial = nontrivial
        for c in classes:
            if c["ext"]:
                res.label("extend_super")
            if len(c["bases"]) >= 2:
                res.label("multiple-bases")
        if bad:
            res.label("has-unsupported-class(skipped)")
        effective(classes)
        if MERGED - bad:
            res.label("multi-base-merge-with-marked-mixin")
        if any(KIND.get(c["id"]) == "flagged" for c in classes):
            res.label("has-marked-mixin-class")
    finally:
        for f in files:
            linecache.cache.pop(f, None)
        glb.clear()
    return res


class Check:
    id = "C17"
    level = "exploration"
    rule = (
        "Hypothesis: 2-6 generated classes (OvldBase / metaclass=OvldMC roots, depth <= 3, multiple bases, plain mixin "
        "classes), 0-4 same-named definitions each with optional @extend_super / @ovld(priority) (on all or only on those "
        "that need it; the marker on any definition, also stacked on @ovld), 1 case in 6 a diamond generated directly, "
        "classes that define nothing asserted through the C3 MRO, bodies with self, "
        "recurse and call_next; every class probed on 10 values right after creation and after every later class. "
        "Oracle: reference interpreter over the documented merge/extend/replace/inherit rules; probes of earlier "
        "classes must not change; self identity. Non-trivial = a class with extend_super over >=2 bases or at depth "
        ">=2 that is probed again after a later class was created; distinct by case hash."
    )
    assumptions = [
        "not asserted (undocumented): several bases carrying overloads under a subclass with own definitions and no "
        "extend_super, a single undecorated definition, identical signatures from two bases",
    ]

    def tasks(self, tier, seed):
        per = 150 if tier == "quick" else 4000
        return [{"kind": "rand", "seed": seed * 1000 + i, "n": per} for i in range(16)]

    def run_task(self, task):
        st = R.Stats()
        R.run_given(st, case_strategy(), run_case, task["seed"], task["n"], R.open_signatures(self.id))
        return st

    def run_case(self, spec):
        return run_case(spec)


CHECK = Check()

if __name__ == "__main__":
    sys.exit(R.main("checks.c17"))
