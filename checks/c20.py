"""C20 - each argument-type combination is resolved at most once between changes.

Method sets are annotated with COUNTING user types: class_check / parametrized_class_check predicates and
classes whose metaclass defines __type_order__ / __is_supertype__ / __is_subtype__ hooks (also inside static
unions / intersections), next to plain classes; bodies delegate through recurse / call_next.
History: calls (with delegation scripts) interleaved with register / unregister.  Oracle: once a call has
succeeded since the last change of the method set, repeating it - including all its nested recurse /
call_next calls - consults no counting hook at all.
"""
import sys

from vlib import boot  # noqa: F401
from vlib import gen as G
from vlib import hier as H
from vlib import runner as R
from vlib import spec as S
from vlib.outcome import capture
from vlib.prog import Program

HIER = {"classes": [{"bases": []}, {"bases": [0]}, {"bases": [0]}, {"bases": [1, 2]}, {"bases": []}]}
KN = ["K0", "K1", "K2", "K3", "K4"]


class Counter:
    def __init__(self):
        self.n = 0
        self.by = {}

    def hit(self, who):
        self.n += 1
        self.by[who] = self.by.get(who, 0) + 1


def make_custom(env, counter):
    import ovld
    from ovld import class_check, parametrized_class_check
    from vlib.api import typeorder

    K = {n: env[n] for n in KN}

    def under_k0(cls):
        counter.hit("class_check:under_k0")
        return isinstance(cls, type) and issubclass(cls, K["K0"])

    def marked(cls):
        counter.hit("class_check:has_tag")
        return getattr(cls, "__name__", "").startswith("K")

    @parametrized_class_check
    def Under(cls, base):
        counter.hit("parametrized_class_check:Under")
        return isinstance(cls, type) and issubclass(cls, base)

    class ProxyMC(type):
        def __type_order__(cls, other):
            counter.hit("__type_order__")
            if other is cls:
                return NotImplemented
            return typeorder(cls.__proxied__, other)

        def __is_supertype__(cls, other):
            counter.hit("__is_supertype__")
            return isinstance(other, type) and issubclass(other, cls.__proxied__)

        def __is_subtype__(cls, other):
            counter.hit("__is_subtype__")
            return NotImplemented

    def proxy(name, target):
        return ProxyMC(name, (), {"__proxied__": target})

    return {
        "CK_under_k0": class_check(under_k0),
        "CK_marked": class_check(marked),
        "Under_K1": Under[K["K1"]],
        "Under_K2": Under[K["K2"]],
        "Proxy_K0": proxy("Proxy_K0", K["K0"]),
        "Proxy_K4": proxy("Proxy_K4", K["K4"]),
        "Proxy_int": proxy("Proxy_int", int),
    }


CUSTOM = ["CK_under_k0", "CK_marked", "Under_K1", "Under_K2", "Proxy_K0", "Proxy_K4", "Proxy_int"]


def case_strategy():
    from hypothesis import strategies as st

    @st.composite
    def _kworder_case(draw):
        """the same argument-type combination reached by a direct call and, from inside a method, by a recurse whose
        keyword arguments are written in another order than the function's entry point lists them"""
        c0 = draw(st.sampled_from(["CK_under_k0", "Under_K1", "Proxy_K0"]))
        kwann = draw(st.sampled_from([["custom", "CK_marked"], ["obj"], ["cls", "int"]]))
        req1 = draw(st.booleans())

        def kw():
            return [{"name": "k0", "ann": kwann, "opt": False}, {"name": "k1", "ann": ["obj"], "opt": not req1}]

        site = {"fn": draw(st.sampled_from(["recurse", "call_next"])), "npos": 1, "kws": ["k0", "k1"],
                "kwrev": draw(st.sampled_from([True, True, False])), "star": draw(st.integers(0, 3)) == 0}
        methods = [{"id": 0, "prio": 0, "sites": [], "pos": [{"name": "a0", "ann": ["custom", c0]}], "kw": kw()},
                   {"id": 1, "prio": 0, "sites": [], "pos": [{"name": "a0", "ann": ["cls", "int"]}], "kw": kw()},
                   {"id": 2, "prio": 0, "sites": [site], "pos": [{"name": "a0", "ann": ["cls", "str"]}], "kw": kw()},
                   {"id": 3, "prio": 0, "sites": [], "pos": [{"name": "a0", "ann": ["obj"]}], "kw": kw()}]
        kv = {"k0": ["inst", "K1"] if kwann != ["cls", "int"] else ["int", 1], "k1": ["int", 2]}
        tgt = ["inst", "K1"]
        pool = [{"args": [["str", "s"]], "kw": kv, "script": [["site", 0, [["int", 1]], kv]]},
                {"args": [tgt], "kw": kv, "script": []},
                {"args": [["str", "s"]], "kw": kv, "script": [["site", 0, [tgt], kv]]},
                {"args": [["int", 1]], "kw": kv, "script": []}]
        ops = [["call", 0], ["call", 1], ["call", 2], ["call", 2]]
        for _ in range(draw(st.integers(0, 6))):
            ops.append(["call", draw(st.integers(0, 3))] if draw(st.integers(0, 3)) else [draw(st.sampled_from(["noop", "derive"])), 0])
        return {"methods": methods, "host": draw(st.sampled_from(["func", "attr", "mc"])), "pool": pool, "ops": ops,
                "noreplace": False}

    @st.composite
    def _case(draw):
        if draw(st.integers(0, 7)) == 0:
            return draw(_kworder_case())
        cust = st.sampled_from([["custom", n] for n in CUSTOM])
        plain = st.sampled_from([["cls", n] for n in KN] + [["obj"], ["cls", "int"], ["cls", "str"]])
        comb = st.tuples(st.sampled_from(["union", "inter"]), st.one_of(cust, plain), plain).map(
            lambda t: [t[0], [t[1], t[2]]])
        depb = cust.map(lambda c: ["dep", c, "true"])  # a class predicate as the BOUND of a dependent type
        ann = st.one_of(cust, cust, plain, comb, depb)
        ms = draw(G.method_sets(KN, ann, max_methods=5, max_pos=2, with_opt=False, allow_zero=False,
                                hosts=("func", "func", "attr", "mc")))
        corpus = [["inst", n] for n in KN] + [["int", 1], ["str", "s"], ["inst", "object"]]
        pool = draw(G.calls_for(ms["methods"], corpus, ms["kwpool"], n_calls=(2, 6)))
        n = draw(st.sampled_from([6, 12, 20, 30]))
        ops = []
        for _ in range(n):
            k = draw(st.sampled_from(["call"] * 8 + ["reg", "unreg", "noop", "derive", "dupreg", "unreg-unknown", "mixin"]))
            if k == "call":
                ops.append(["call", draw(st.integers(0, len(pool) - 1))])
            else:
                ops.append([k, draw(st.integers(0, 9))])
        return {"methods": ms["methods"], "host": ms["host"], "pool": pool, "ops": ops,
                # allow_replacement=False: registering a signature that is already present is REFUSED (no change)
                "noreplace": draw(st.booleans())}

    return _case()


def run_case(spec):
    res = R.CaseResult()
    env = H.build(HIER)
    counter = Counter()
    env["__custom__"] = make_custom(env, counter)
    mutable = spec["host"] != "mc"
    if spec.get("noreplace"):
        from vlib import model as M

        keys = [R.canon(M.sig_key(m)) for m in spec["methods"]]
        if len(set(keys)) != len(keys):
            spec = dict(spec, noreplace=False)  # the set itself repeats a signature: it needs replacement
    try:
        prog = Program({"hier": HIER, "methods": spec["methods"], "host": spec["host"]}, env=env, build=mutable is False or True,
                       ovld_kwargs={"allow_replacement": False} if (spec.get("noreplace") and mutable) else None)
    except Exception as e:  # noqa: BLE001
        res.fail(f"program construction failed: {type(e).__name__}: {e}", None)
        return res
    try:
        registered = [m["id"] for m in spec["methods"]]
        warmed = {}
        extra_mixin = [None]
        seen_combos = set()
        consulted_in_warmup = 0
        nested_repeat = False
        for step, op in enumerate(spec["ops"]):
            if op[0] == "call":
                idx = op[1] % len(spec["pool"])
                call = spec["pool"][idx]
                args = [S.build_value(v, env) for v in call["args"]]
                kws = {k: S.build_value(v, env) for k, v in call["kw"].items()}
                before, by_before = counter.n, dict(counter.by)
                out = prog.call(args, kws, script=call.get("script"))
                delta = counter.n - before
                trace = prog.H.trace()
                # every argument-type combination this call dispatched on: its own and those of its delegations
                def combo(a, k):
                    kk = lambda v: v if isinstance(v, type) else type(v)  # noqa: E731
                    return (tuple(kk(v) for v in a), tuple(sorted((n, kk(v)) for n, v in k.items())))

                combos = {combo(args, kws)} | {combo(p_, k_) for (_, _, _, p_, k_) in prog.H.delegs}
                if idx not in warmed and out.kind == "ok" and combos <= seen_combos and delta:
                    who = {k: v - by_before.get(k, 0) for k, v in counter.by.items() if v != by_before.get(k, 0)}
                    res.label("all-combinations-warm-via-other-calls")
                    res.fail(
                        f"step {step}: call #{idx} args={call['args']} kw={call['kw']} script={call.get('script')} only "
                        f"dispatches on argument-type combinations that earlier calls had already resolved since the last "
                        f"change (possibly with the keywords written in another order), yet it consulted {delta} hook(s): "
                        f"{who}; trace={trace} | ops {spec['ops'][:step + 1]}",
                        "C20:warm-combination-resolved-again",
                    )
                    break
                if out.kind == "ok":
                    seen_combos |= combos
                if idx in warmed:
                    res.label("repeat")
                    if len(trace) >= 2:
                        nested_repeat = True
                        res.label("repeat-with-nested-delegation")
                    if delta:
                        who = {k: v - by_before.get(k, 0) for k, v in counter.by.items() if v != by_before.get(k, 0)}
                        res.fail(
                            f"step {step}: call #{idx} args={call['args']} kw={call['kw']} script={call.get('script')} "
                            f"had already succeeded since the last change, yet repeating it consulted {delta} hook(s): "
                            f"{who}; trace={trace} | ops {spec['ops'][:step + 1]}",
                            None,
                        )
                        break
                else:
                    consulted_in_warmup += delta
                if out.kind in ("ok", "user"):
                    warmed[idx] = True
                elif out.kind in ("other", "badcall"):
                    res.fail(f"step {step}: call #{idx}: {out.brief()}",
                             "C20:type-order-cycle-between-hook-owning-types" if "CycleError" in out.detail else None)
                    break
            elif mutable and op[0] == "unreg" and len(registered) > 1:
                mid = registered[op[1] % len(registered)]
                r = capture(prog.ov.unregister, prog.fns[mid])
                if r.kind == "config":
                    continue  # locked by a derived function: nothing changed
                if r.kind != "ok":
                    res.fail(f"unregister failed: {r.brief()}", None)
                    break
                registered.remove(mid)
                warmed.clear()
                seen_combos.clear()
                res.label("op:unreg")
            elif mutable and op[0] == "derive":
                # build and use a variant: that locks this function but does not change its methods
                child = prog.ov.copy()
                if spec["pool"]:
                    c0 = spec["pool"][op[1] % len(spec["pool"])]
                    a0 = [S.build_value(v, env) for v in c0["args"]]
                    k0 = {k: S.build_value(v, env) for k, v in c0["kw"].items()}
                    prog.H.start([])
                    capture(child.dispatch if hasattr(child, "dispatch") else child,
                            *([prog.obj] if prog.is_method else []), *a0, **k0)
                res.label("op:derive-and-use-a-variant")
            elif mutable and op[0] == "unreg-unknown":
                # unregistering a function that was never registered changes nothing
                r = capture(prog.ov.unregister, lambda x: None)
                if r.kind not in ("ok", "config"):
                    res.fail(f"unregister(<a function that was never registered>) raised {r.brief()}", None)
                    break
                res.label("op:unregister-unknown-function")
            elif mutable and op[0] == "mixin":
                # the first add_mixins(E) of an (empty) function E is a change of the derivation; adding E AGAIN is not
                first = extra_mixin[0] is None
                if first:
                    import ovld as _ovld

                    extra_mixin[0] = _ovld.Ovld()
                r = capture(prog.ov.add_mixins, extra_mixin[0])
                if r.kind == "config":
                    if first:
                        extra_mixin[0] = None
                    continue
                if r.kind != "ok":
                    res.fail(f"add_mixins(<empty function>) raised {r.brief()}", None)
                    break
                if first:
                    warmed.clear()
                    seen_combos.clear()
                res.label("op:add_mixins-first" if first else "op:add_mixins-same-again")
            elif mutable and op[0] == "noop":
                # operations that do not change the set of methods: adding no mixin / the function itself
                r = capture(prog.ov.add_mixins) if op[1] % 2 else capture(prog.ov.add_mixins, prog.ov)
                if r.kind not in ("ok", "config"):
                    res.fail(f"add_mixins() with nothing to add raised {r.brief()}", None)
                    break
                res.label("op:add_mixins-nothing")
            elif mutable and op[0] == "dupreg" and spec.get("noreplace") and registered:
                # a registration that is refused leaves the set of methods as it was
                mid = registered[op[1] % len(registered)]
                r = capture(prog.register, mid)
                if r.kind == "ok":
                    res.fail(f"step {step}: allow_replacement=False, yet registering method {mid} again was accepted", None)
                    break
                res.label("op:refused-duplicate-registration")
            elif mutable and op[0] == "reg":
                cand = [m["id"] for m in spec["methods"] if m["id"] not in registered]
                if not cand:
                    continue
                mid = cand[op[1] % len(cand)]
                r = capture(prog.register, mid)
                if r.kind == "config":
                    continue  # locked by a derived function: nothing changed
                if r.kind != "ok":
                    res.fail(f"register failed: {r.brief()}", None)
                    break
                registered.append(mid)
                warmed.clear()
                seen_combos.clear()
                res.label("op:reg")
        res.nontrivial = consulted_in_warmup > 0 and nested_repeat
        if consulted_in_warmup:
            res.label("warm-up-consulted-hooks")
    finally:
        prog.close()
    return res


class Check:
    id = "C20"
    level = "exploration"
    rule = (
        "Hypothesis histories: <=5 methods annotated with counting class_check / parametrized_class_check predicates "
        "and proxy classes with __type_order__ / __is_supertype__ / __is_subtype__ hooks (also inside unions / "
        "intersections) next to plain classes, bodies delegating via recurse / call_next; 6-30 operations "
        "(calls from a pool of 2-6 scripted calls, register, unregister). A call that has succeeded since the last "
        "change must consult zero hooks when repeated. Non-trivial = the warm-up consulted >=1 hook and a repeated "
        "call contains a nested delegation; distinct by history hash."
    )
    assumptions = [
        "counting types are used only where the library treats them as types (top-level annotations and static "
        "combinators); unsuccessful calls are not covered by the statement",
        "computations that consult no user hook (plain-class issubclass work) are invisible to this check",
    ]

    def tasks(self, tier, seed):
        per = 150 if tier == "quick" else 4000
        return [{"kind": "rand", "seed": seed * 1000 + i, "n": per} for i in range(16)]

    def run_task(self, task):
        st = R.Stats()
        R.run_given(st, case_strategy(), run_case, task["seed"], task["n"], R.open_signatures(self.id))
        return st

    def run_case(self, spec):
        return run_case(spec)


CHECK = Check()

if __name__ == "__main__":
    sys.exit(R.main("checks.c20"))
