"""C08 - recurse always re-enters the overloaded function that was actually called.

Generated: a derivation graph of functions (roots, copy / variant chains to depth 3, two children of one
parent, mixin combinations with fan-in 2-3), methods placed on the nodes - recursive walkers over list /
tuple / dict (using `recurse`, or on roots the function's own name) and leaf methods over a small class
hierarchy and builtins - nested inputs of depth <= 3, nodes called in random alternation.
Oracle: a reference interpreter (vlib.graph.eval_ref): evaluating x in node N resolves x in N's effective
method set (parents overlaid by own); a walker maps the evaluation IN THE SAME NODE N over the children.
"""
import sys

from vlib import boot  # noqa: F401
from vlib import graph as GR
from vlib import hier as H
from vlib import runner as R
from vlib import spec as S

HIER = {"classes": [{"bases": []}, {"bases": [0]}, {"bases": []}]}
LEAF_ANNS = [["cls", "int"], ["cls", "str"], ["obj"], ["cls", "K0"], ["cls", "K1"], ["cls", "K2"], ["cls", "bool"],
             ["cls", "float"], ["cls", "Number"]]


def value_strategy():
    from hypothesis import strategies as st

    leaf = st.sampled_from([["int", 1], ["str", "s"], ["inst", "K0"], ["inst", "K1"], ["inst", "K2"], ["bool", True],
                            ["float", 1.5], ["none"]])
    return st.recursive(
        leaf,
        lambda ch: st.one_of(
            st.lists(ch, max_size=3).map(lambda v: ["list", v]),
            st.lists(ch, max_size=3).map(lambda v: ["tuple", v]),
            st.lists(ch, max_size=2).map(lambda v: ["dict", [[["str", f"k{i}"], x] for i, x in enumerate(v)]]),
        ),
        max_leaves=8,
    )


def case_strategy():
    from hypothesis import strategies as st

    @st.composite
    def _case(draw):
        n = draw(st.integers(2, 6))
        nodes = []
        mid = 0
        used = {}
        for i in range(n):
            if i == 0 or draw(st.integers(0, 5)) == 0:
                kind, parents = "root", []
            elif i >= 2 and draw(st.integers(0, 2)) == 0:
                k = draw(st.integers(2, min(3, i)))
                parents = draw(st.lists(st.integers(0, i - 1), min_size=k, max_size=k, unique=True))
                kind = "mixins"
            else:
                kind, parents = "copy", [draw(st.integers(0, i - 1))]
            methods = []
            nmeth = draw(st.integers(1, 4)) if kind != "copy" or draw(st.integers(0, 4)) else 0
            own = set()
            forced = ["walk_list", "leaf-obj"] + (["walk_tuple", "walk_dict"] if draw(st.booleans()) else []) \
                if i == 0 and draw(st.integers(0, 4)) else []
            for j in range(nmeth + len(forced)):
                mk = forced[j] if j < len(forced) else draw(
                    st.sampled_from(["leaf", "leaf", "leaf", "walk_list", "walk_tuple", "walk_dict"]))
                force_obj = mk == "leaf-obj"
                mk = "leaf" if force_obj else mk
                m = {"id": mid, "kind": mk, "prio": draw(st.sampled_from([0, 0, 0, 1])), "owner": i}
                if mk == "leaf":
                    m["ann"] = ["obj"] if force_obj else draw(st.sampled_from(LEAF_ANNS))
                m["rec"] = "self" if (mk != "leaf" and kind == "root" and draw(st.integers(0, 3)) == 0) else "recurse"
                if mk != "leaf" and m["rec"] == "recurse" and draw(st.integers(0, 2)) == 0:
                    # a starred call: its shape is not known statically, so it takes the run-time path of the
                    # rewriter (a per-function helper stored in the method's globals)
                    m["dyn"] = True
                key = (R.canon(GR.method_ann(m)), m["prio"])
                if key in own and draw(st.integers(0, 2)):
                    continue  # (1 time in 3 the node registers the signature again: the newer method replaces the older)
                own.add(key)
                methods.append(m)
                mid += 1
            nodes.append({"id": i, "kind": kind, "parents": parents, "methods": methods})
        inputs = draw(st.lists(value_strategy(), min_size=1, max_size=4))
        calls = draw(st.lists(st.tuples(st.integers(0, n - 1), st.integers(0, len(inputs) - 1)), min_size=2, max_size=10))
        return {"nodes": nodes, "inputs": inputs, "calls": [list(c) for c in calls]}

    return _case()


def effective(nodes):
    eff = {}
    for nd in nodes:
        eff[nd["id"]] = GR.overlay([eff[p] for p in nd["parents"]], nd["methods"])
    return eff


def conflicting_parents(nodes, eff):
    """identical signatures contributed by two DIFFERENT parents (overlay order between parents is
    undocumented) -> such a case is not asserted"""
    from vlib import model as M

    bad = set()
    for nd in nodes:
        if any(p in bad for p in nd["parents"]):
            bad.add(nd["id"])
        if len(nd["parents"]) >= 2:
            seen = {}
            for p in nd["parents"]:
                for m in eff[p]:
                    k = M.sig_key(GR.as_model_method(m))
                    if k in seen and seen[k] != m["id"]:
                        bad.add(nd["id"])
                    seen[k] = m["id"]
    return bad


def depth(v):
    if v[0] in ("list", "tuple"):
        return 1 + max([depth(x) for x in v[1]] or [0])
    if v[0] == "dict":
        return 1 + max([depth(x[1]) for x in v[1]] or [0])
    return 0


def run_case(spec):
    res = R.CaseResult()
    env = H.build(HIER)
    nodes = spec["nodes"]
    eff = effective(nodes)
    bad = conflicting_parents(nodes, eff)
    g = GR.FnGraph(HIER, env=env)
    try:
        for nd in nodes:
            g.create(nd["id"], nd["kind"] if nd["kind"] != "variant" else "copy", nd["parents"])
            for m in nd["methods"]:
                g.register(nd["id"], m)
        derived_nested_override = False
        for node, ii in spec["calls"]:
            if not eff[node]:
                continue
            if node in bad:
                res.skipped.append("identical-signature-from-two-parents")
                continue
            vs = spec["inputs"][ii]
            x = S.build_value(vs, env)
            try:
                exp = ("ok", GR.eval_ref(eff, node, x, env))
            except GR.RefFail as rf:
                exp = (rf.kind,)
            if exp[0] == "unspec":
                res.skipped.append("unspec")
                continue
            out = g.call(node, x)
            got = ("ok", out.value) if out.kind == "ok" else ("nomethod",) if out.kind == "rejected" else (out.kind,)
            nd = nodes[node]
            res.label("node:" + nd["kind"], "exp:" + exp[0])
            if got != exp:
                res.fail(
                    f"node {node} ({nd['kind']} of {nd['parents']}) on input {vs}: got {got if got[0] != 'ok' else out.value}, "
                    f"reference interpreter says {exp} ({out.detail[:200]})",
                    None,
                )
                continue
            if nd["kind"] != "root" and depth(vs) >= 1 and exp[0] == "ok":
                own_ids = {m["id"] for m in nd["methods"]}
                if own_ids and any(f"{i}" in repr(exp[1]) for i in own_ids) and _uses(exp[1], own_ids):
                    derived_nested_override = True
        res.nontrivial = derived_nested_override
        if derived_nested_override:
            res.label("derived-node-nested-input-own-method-used")
    finally:
        g.close()
    return res


def _uses(result, ids):
    if isinstance(result, tuple) and len(result) == 2 and result[0] == "leaf":
        return result[1] in ids
    if isinstance(result, (list, tuple)):
        if len(result) >= 2 and result[0] in ("L", "T") and result[1] in ids:
            return True
        return any(_uses(r, ids) for r in result[2:])
    if isinstance(result, dict):
        return result.get("__m__") in ids or any(_uses(v, ids) for k, v in result.items() if k != "__m__")
    return False


class Check:
    id = "C08"
    level = "exploration"
    rule = (
        "Hypothesis: derivation graph of 2-6 functions (roots, copies/variants to depth 3, two children of one parent, "
        "mixin fan-in 2-3) x placement of recursive walkers (recurse / own name; 1 recurse walker in 3 with a starred "
        "call, i.e. on the rewriter's run-time path) and leaf methods x nested inputs "
        "(depth <= 3) x 2-10 calls alternating between nodes; results compared structurally with a reference "
        "interpreter. Non-trivial = a derived node is called on a nested input and a method the node itself adds or "
        "overrides is used somewhere in the result; distinct by case hash."
    )
    assumptions = [
        "identical signatures contributed by two different parents are not asserted (overlay order undocumented)",
        "a walker naming its own function re-enters the function the name is bound to (plain Python semantics)",
    ]

    def tasks(self, tier, seed):
        per = 200 if tier == "quick" else 5000
        return [{"kind": "rand", "seed": seed * 1000 + i, "n": per} for i in range(16)]

    def run_task(self, task):
        st = R.Stats()
        R.run_given(st, case_strategy(), run_case, task["seed"], task["n"], R.open_signatures(self.id))
        return st

    def run_case(self, spec):
        return run_case(spec)


CHECK = Check()

if __name__ == "__main__":
    sys.exit(R.main("checks.c08"))
