"""C05 - after register / re-register / unregister, behaviour equals a freshly built function.

(i)  Ovld histories: a pool of method specs (including repeated identical signatures) and an operation
     list  reg / unreg / call / resolve  (calls via the dispatch function or the Ovld object, with
     delegation scripts).  After every call the observation must equal the same call on a brand-new
     function built from the *survivors* (methods registered and not unregistered, in registration
     order - a re-registered signature keeps its predecessor underneath, so survivors are all kept).
(ii) public MultiTypeMap histories: register(sig, handler) / lookup(types) / lookup((code, *types));
     every lookup must equal the same lookup on a fresh table filled with the same registrations.
"""
import sys

from vlib import boot  # noqa: F401
from vlib import gen as G
from vlib import hier as H
from vlib import model as M
from vlib import runner as R
from vlib import spec as S
from vlib.outcome import capture
from vlib.prog import Program

from vlib.api import MultiTypeMap, Signature


# ----------------------------------------------------------------------------- (i) Ovld histories


def ovld_strategy(max_ops=30):
    from hypothesis import strategies as st

    @st.composite
    def _switch_case(draw):
        """A function is used while no method has a type[...] annotation, then one is registered: every call site -
        the entry point, static recurse / call_next sites and the run-time (starred) ones - must switch its lookup of
        that position from type(x) to type[x]."""
        h = {"classes": [{"bases": []}, {"bases": [0]}]}
        cls = draw(st.sampled_from(["K0", "K1", "int"]))
        star = draw(st.booleans())
        sites = [{"fn": "recurse", "npos": 1, "kws": [], "star": star}, {"fn": "call_next", "npos": 1, "kws": [], "star": not star}]
        which = draw(st.sampled_from(["both", "both", "recurse", "call_next"]))  # bodies that use only one of the two
        if which != "both":
            sites = [s for s in sites if s["fn"] == which] * 2
            sites[1] = dict(sites[1], star=not sites[0]["star"])
        methods = [
            {"id": 0, "prio": 1, "kw": [], "sites": sites, "pos": [{"name": "a0", "ann": ["cls", "str"]}]},
            {"id": 1, "prio": 0, "kw": [], "sites": [], "pos": [{"name": "a0", "ann": ["cls", "int"]}]},
            {"id": 2, "prio": 0, "kw": [], "sites": sites, "pos": [{"name": "a0", "ann": ["obj"]}]},
            {"id": 3, "prio": 0, "kw": [], "sites": [], "pos": [{"name": "a0", "ann": ["type", ["cls", cls]]}]},
            {"id": 4, "prio": -1, "kw": [], "sites": [], "pos": [{"name": "a0", "ann": ["obj"]}]},
        ]
        cobj = ["clsobj", cls]
        pool = [
            {"args": [["str", "s"]], "kw": {}, "script": [["site", 0, [cobj], {}]]},
            {"args": [["str", "s"]], "kw": {}, "script": [["site", 1, [cobj], {}]]},
            {"args": [cobj], "kw": {}, "script": []},
            {"args": [["int", 1]], "kw": {}, "script": []},
            {"args": [["inst", "K1"]], "kw": {}, "script": [["site", 0, [cobj], {}]]},
        ]
        ops = [["reg", 0], ["reg", 0], ["reg", 0]]  # methods 0, 1, 2
        for _ in range(draw(st.integers(1, 3))):
            ops.append(["call", draw(st.integers(0, 4)), "dispatch"])
        ops += [["reg", 0]]  # the type[...] method (first unregistered id is 3)
        for _ in range(draw(st.integers(2, 6))):
            k = draw(st.sampled_from(["call", "call", "call", "reg", "unreg"]))
            ops.append(["call", draw(st.integers(0, 4)), draw(st.sampled_from(["dispatch", "ovld"]))] if k == "call"
                       else [k, draw(st.integers(0, 9))])
        return {"kind": "ovld", "hier": h, "methods": methods, "host": draw(st.sampled_from(["func", "attr"])),
                "pool": pool, "ops": ops}

    @st.composite
    def _case(draw):
        if draw(st.integers(0, 7)) == 0:
            return draw(_switch_case())
        h = draw(H.hierarchies(1, 5))
        knames = H.class_names(h)
        env = H.build(h)
        corpus = G.value_corpus(knames)
        fit = G.fitting_fn(env, corpus)
        ms = draw(G.method_sets(knames, G.satisfiable(G.any_ann(knames, p_dep=0.2), fit), max_methods=5,
                                hosts=("func", "func", "attr")))
        methods = ms["methods"]
        # repeated identical signatures (new functions with the signature of an existing one)
        for _ in range(draw(st.integers(0, 2))):
            src = draw(st.sampled_from(methods))
            m = {k: v for k, v in src.items()}
            m["id"] = len(methods)
            if ms["methods"][0]["pos"] and ms["methods"][0]["pos"][0].get("posonly"):
                m["pos"] = [dict(p, name=f"q{m['id']}_{j}") for j, p in enumerate(src["pos"])]
            methods.append(m)
        # sometimes a method annotated type[...] is part of the pool: registering it switches the lookup of that
        # position from type(x) to type[x] for EVERY call site, including already rewritten recurse / call_next sites
        if draw(st.integers(0, 2)) == 0:
            proto = draw(st.sampled_from([m for m in methods if m["pos"]] or methods))
            if proto["pos"]:
                tm = {"id": len(methods), "prio": 0, "kw": [], "sites": [],
                      "pos": [dict(p, ann=(["type", ["cls", draw(st.sampled_from(knames))]] if j == 0 else ["obj"]), opt=False)
                              for j, p in enumerate(proto["pos"])]}
                if proto["pos"][0].get("posonly"):
                    tm["pos"] = [dict(p, name=f"q{tm['id']}_{j}") for j, p in enumerate(tm["pos"])]
                methods.append(tm)
                corpus = corpus + [["clsobj", n] for n in knames] + [["clsobj", "int"]]
        pool = draw(G.calls_for(methods, corpus, ms["kwpool"], fitting=fit, n_calls=(2, 6)))
        n = draw(st.sampled_from([4, 8, 16, max_ops]))
        ops = [["reg", draw(st.integers(0, 9))]]
        for _ in range(n):
            k = draw(st.sampled_from(["reg", "reg", "unreg", "call", "call", "call", "resolve"]))
            if k in ("reg", "unreg"):
                ops.append([k, draw(st.integers(0, 9))])
            elif k == "call":
                ops.append(["call", draw(st.integers(0, len(pool) - 1)),
                            draw(st.sampled_from(["dispatch", "dispatch", "ovld"]))])
            else:
                ops.append(["resolve", draw(st.integers(0, len(pool) - 1))])
        return {"kind": "ovld", "hier": h, "methods": methods, "host": ms["host"], "pool": pool, "ops": ops}

    return _case()


def observe(prog, call, env, via=None):
    args = [S.build_value(v, env) for v in call["args"]]
    kws = {k: S.build_value(v, env) for k, v in call["kw"].items()}
    out = prog.call(args, kws, script=call.get("script"), via=via)
    val = out.value.mid if (out.kind == "ok" and hasattr(out.value, "mid")) else None
    return (out.kind, val, tuple(prog.H.trace())), out


def observe_resolve(prog, call, env):
    args = [S.build_value(v, env) for v in call["args"]]
    ro = capture(prog.ov.resolve, *args)
    if ro.kind != "ok":
        return (ro.kind,)
    prog.H.start([])
    r2 = capture(ro.value, *([prog.obj] if prog.is_method else []), *args)
    return ("handler", r2.kind, r2.value.mid if r2.kind == "ok" and hasattr(r2.value, "mid") else None)


def _has_combinators(spec):
    txt = R.canon(spec["methods"])
    return any(k in txt for k in ('"union"', '"inter"', '"exactly"', '"strict"', '"hasmethod"'))


def run_ovld_case(spec):
    res = R.CaseResult()
    env = H.build(spec["hier"])
    pspec = {"hier": spec["hier"], "methods": spec["methods"], "host": spec["host"]}
    prog = Program(pspec, env=env, build=False)
    registered = []  # survivors, in registration order
    all_ids = [m["id"] for m in spec["methods"]]
    fresh_cache = {}
    used = False
    changed_after_use = 0
    flips = 0
    last_obs = {}
    try:
        for step, op in enumerate(spec["ops"]):
            if op[0] == "reg":
                cand = [i for i in all_ids if i not in registered]
                if not cand:
                    continue
                mid = cand[op[1] % len(cand)]
                r = capture(prog.register, mid)
                if r.kind != "ok":
                    res.fail(f"step {step}: register(m{mid}) failed: {r.brief()}", None)
                    break
                registered.append(mid)
                if prog.f is None:
                    prog._bind()
                if used:
                    changed_after_use += 1
                res.label("op:reg" + (":same-signature" if any(
                    M.sig_key(prog.by_id[mid]) == M.sig_key(prog.by_id[o]) for o in registered[:-1]) else ""))
            elif op[0] == "unreg":
                if len(registered) <= 1:
                    continue
                mid = registered[op[1] % len(registered)]
                r = capture(prog.ov.unregister, prog.fns[mid])
                if r.kind != "ok":
                    res.fail(f"step {step}: unregister(m{mid}) failed: {r.brief()}", None)
                    break
                registered.remove(mid)
                if used:
                    changed_after_use += 1
                res.label("op:unreg")
            else:
                if not registered:
                    continue
                call = spec["pool"][op[1] % len(spec["pool"])]
                key = (op[0], op[1] % len(spec["pool"]), tuple(registered))
                if key not in fresh_cache:
                    p2 = Program(pspec, env=env, order=list(registered))
                    try:
                        if op[0] == "call":
                            fresh_cache[key] = observe(p2, call, env)[0]
                        else:
                            fresh_cache[key] = observe_resolve(p2, call, env)
                    finally:
                        p2.close()
                if op[0] == "call":
                    via = prog.ov if (op[2] == "ovld" and prog.host == "func") else None
                    got, out = observe(prog, call, env, via=via)
                    detail = out.detail[:200]
                else:
                    if call["kw"] or prog.host != "func":
                        continue
                    got, detail = observe_resolve(prog, call, env), ""
                used = True
                ck = (op[0], op[1] % len(spec["pool"]))
                if ck in last_obs and last_obs[ck][0] != tuple(registered) and last_obs[ck][1] != fresh_cache[key]:
                    flips += 1
                last_obs[ck] = (tuple(registered), fresh_cache[key])
                if got != fresh_cache[key]:
                    from vlib.outcome import F5_CYCLE

                    cyc = "CycleError" in detail or (got[0] == "other") != (fresh_cache[key][0] == "other")
                    res.fail(
                        f"step {step}: {op} args={call['args']} kw={call['kw']} script={call.get('script')} "
                        f"with survivors {registered}: got {got}, a fresh function gives {fresh_cache[key]} {detail}"
                        f" | history {spec['ops'][:step]}",
                        F5_CYCLE if cyc and _has_combinators(spec) else None,
                    )
                    break
        res.nontrivial = flips >= 1 and changed_after_use >= 1
        if flips:
            res.label("mutation-changed-an-earlier-observed-outcome")
    finally:
        prog.close()
    return res


# ----------------------------------------------------------------------------- (ii) MultiTypeMap histories


def table_strategy(max_ops=30):
    from hypothesis import strategies as st

    @st.composite
    def _case(draw):
        h = draw(H.hierarchies(2, 6, abcs=False, marks=False))
        names = H.class_names(h) + ["object"]
        npos = draw(st.integers(1, 2))
        n = draw(st.sampled_from([4, 8, 16, max_ops]))
        ops = []
        nh = 0
        for _ in range(n):
            k = draw(st.sampled_from(["reg", "get", "get", "getnext"]))
            if k == "reg" or nh == 0:
                ops.append(["reg", [draw(st.sampled_from(names)) for _ in range(npos)],
                            draw(st.sampled_from([0, 0, 0, 1])), nh])
                nh += 1
            elif k == "get":
                ops.append(["get", [draw(st.sampled_from(names)) for _ in range(npos)]])
            else:
                ops.append(["getnext", draw(st.integers(0, nh - 1)),
                            [draw(st.sampled_from(names)) for _ in range(npos)]])
        return {"kind": "table", "hier": h, "ops": ops}

    return _case()


def _mk_handler(i):
    src = "\n" * i + f"def h{i}(*a): return {i}\n"
    glb = {}
    exec(compile(src, "<verif-c05-handlers>", "exec"), glb)
    return glb[f"h{i}"]


def _lookup(tm, key):
    try:
        v = tm[key]
        return ("handler", getattr(v, "__name__", repr(v)))
    except KeyError as e:
        group = e.args[1] if len(e.args) > 1 else ()
        if group:
            return ("ambiguous", tuple(sorted(c.handler.__name__ for c in group)))
        return ("nomethod",)


def run_table_case(spec):
    res = R.CaseResult()
    env = H.build(spec["hier"])
    env["object"] = object
    tm = MultiTypeMap()
    regs = []
    handlers = {}
    got_err_before_reg = False
    saw_error = False
    for step, op in enumerate(spec["ops"]):
        if op[0] == "reg":
            types = tuple(env[n] for n in op[1])
            sig = Signature(types=types, return_type=None, req_pos=len(types), max_pos=len(types),
                            req_names=frozenset(), vararg=False, priority=op[2])
            hd = handlers.setdefault(op[3], _mk_handler(op[3]))
            tm.register(sig, hd)
            regs.append((sig, hd))
            if saw_error:
                got_err_before_reg = True
            continue
        if op[0] == "get":
            key = tuple(env[n] for n in op[1])
        else:
            if op[1] not in handlers:
                continue
            key = (handlers[op[1]].__code__, *[env[n] for n in op[2]])
        fresh = MultiTypeMap()
        for sig, hd in regs:
            fresh.register(sig, hd)
        exp = _lookup(fresh, key)
        got = _lookup(tm, key)
        if exp[0] != "handler":
            saw_error = True
        if got != exp:
            res.fail(
                f"step {step}: lookup {op} gave {got}, a fresh table with the same {len(regs)} registrations "
                f"gives {exp} | history {spec['ops'][:step]}",
                "C05:multitypemap-stale-error-after-register"
                if (got[0] in ("ambiguous", "nomethod") and exp[0] == "handler") else None,
            )
            break
    res.nontrivial = got_err_before_reg
    if got_err_before_reg:
        res.label("register-after-failed-lookup")
    return res


# ----------------------------------------------------------------------------- check


class Check:
    id = "C05"
    level = "exploration"
    rule = (
        "Hypothesis histories. (i) Ovld: reg / re-reg(identical signature) / unreg / call / resolve over a pool of "
        "generated methods, via dispatch function and Ovld object, with delegation scripts; (ii) public MultiTypeMap: "
        "register / lookup / continuation lookup. Every observation must equal the same operation on a brand-new "
        "function / table built from the surviving registrations in order. Non-trivial = (i) a mutation after first "
        "use that changes the fresh-function outcome of a call observed earlier, (ii) a registration after a failed "
        "lookup; distinct by history hash."
    )
    assumptions = [
        "survivors = methods registered and not unregistered, in registration order (a re-registered signature "
        "keeps its predecessor underneath - tests/test_ovld.py::test_call_next_same_priority)",
    ]

    def tasks(self, tier, seed):
        per = 250 if tier == "quick" else 3000
        t = [{"kind": "ovld", "seed": seed * 1000 + i, "n": per} for i in range(10)]
        t += [{"kind": "table", "seed": seed * 1000 + 500 + i, "n": per * 4} for i in range(6)]
        return t

    def run_task(self, task):
        st = R.Stats()
        sigs = R.open_signatures(self.id)
        if task["kind"] == "ovld":
            R.run_given(st, ovld_strategy(), run_ovld_case, task["seed"], task["n"], sigs)
        else:
            R.run_given(st, table_strategy(), run_table_case, task["seed"], task["n"], sigs)
        return st

    def run_case(self, spec):
        return run_table_case(spec) if spec.get("kind") == "table" else run_ovld_case(spec)


CHECK = Check()

if __name__ == "__main__":
    sys.exit(R.main("checks.c05"))
