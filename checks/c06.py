"""C06 - resolution is deterministic and ignores irrelevant context.

A case (hierarchy, method set, calls) is executed under several configurations; the outcome vector
(kind, winner) over the calls must be identical in all of them:
  (a) a permutation of the registration order of distinct signatures (identical signatures keep their order);
  (b) harness-chosen iteration orders of every set in ovld.typemap and of the candidate types handed to
      sort_types (vlib.order: module-namespace shadowing, no source hook);
  (c) extra methods that are NOT applicable to any probed call (other arity, an unrelated class at one position,
      an unsupplied required keyword);
  (d) fresh subprocesses with different PYTHONHASHSEED and different allocation padding before the classes are
      created (changes id()-based set order), batches of cases per subprocess.
Annotations include unions / intersections with shared members and dependent types on the same bound.
"""
import copy
import json
import os
import subprocess
import sys
import tempfile

from vlib import boot  # noqa: F401
from vlib import gen as G
from vlib import hier as H
from vlib import model as M
from vlib import order as O
from vlib import runner as R
from vlib import spec as S
from vlib.prog import Program


def case_strategy():
    from hypothesis import strategies as st

    @st.composite
    def _lit_case(draw):
        """3-6 methods keyed by Literal sets at the first position, some sharing values (pairs that are or are not
        neighbours in any internal listing), plus the int fallback; probes are the shared and the private values"""
        h = {"classes": [{"bases": []}]}
        n = draw(st.integers(3, 6))
        groups = [sorted(draw(st.sets(st.integers(0, 5), min_size=1, max_size=3))) for _ in range(n)]
        two = draw(st.booleans())
        methods = []
        for j, g in enumerate(groups):
            pos = [{"name": "a0", "ann": ["lit", g]}]
            if two:
                pos.append({"name": "a1", "ann": draw(st.sampled_from([["cls", "int"], ["obj"], ["lit", [0]]]))})
            methods.append({"id": j, "pos": pos, "kw": [], "prio": 0})
        if draw(st.booleans()):
            methods.append({"id": n, "pos": [{"name": "a0", "ann": ["cls", "int"]}] + ([{"name": "a1", "ann": ["obj"]}] if two else []),
                            "kw": [], "prio": 0})
        calls = [{"args": [["int", v]] + ([["int", draw(st.sampled_from([0, 1]))]] if two else []), "kw": {}, "script": []}
                 for v in draw(st.lists(st.integers(0, 6), min_size=4, max_size=7, unique=True))]
        nm = len(methods)
        return {"hier": h, "methods": methods, "calls": calls, "perm": list(draw(st.permutations(list(range(nm))))),
                "salts": draw(st.lists(st.integers(1, 10 ** 6), min_size=3, max_size=3, unique=True)),
                "extras": draw(st.lists(st.sampled_from(["arity", "class", "typeann"]), min_size=1, max_size=2)), "kwpool": []}

    @st.composite
    def _case(draw):
        if draw(st.integers(0, 7)) == 0:
            return draw(_lit_case())
        h = draw(H.hierarchies(2, 6))
        knames = H.class_names(h)
        env = H.build(h)
        corpus = G.value_corpus(knames)
        fit = G.fitting_fn(env, corpus)
        shared = st.lists(st.sampled_from([["cls", n] for n in knames] + [["cls", "int"], ["cls", "str"]]),
                          min_size=2, max_size=3, unique_by=repr)
        overlapping = st.tuples(st.sampled_from(["union", "inter"]), shared).map(lambda t: [t[0], t[1]])
        mixed = st.tuples(st.sampled_from([["cls", n] for n in knames] + [["cls", "str"]]),
                          st.sampled_from([["lit", [0]], ["lit", [0, 1]], ["lit", ["a"]], ["startswith", "a"]])).map(
            lambda t: ["union", [t[0], t[1]]])
        samebound = st.sampled_from([["listof", ["cls", "int"]], ["seqof", ["cls", "int"]], ["dictof", ["cls", "str"], ["cls", "int"]],
                                     ["mapof", ["cls", "str"], ["cls", "int"]],
                                     ["dep", ["cls", "int"], "pos"], ["dep", ["cls", "int"], "even"],
                                     ["dep", ["cls", "int"], "big"], ["lit", [0]], ["lit", [1, 2]], ["lit", [2, 3]]])
        ann = G.satisfiable(st.one_of(G.any_ann(knames, p_dep=0.3), G.any_ann(knames, p_dep=0.3), overlapping,
                                      samebound, mixed), fit)
        ms = draw(G.method_sets(knames, ann, max_methods=6, max_pos=2, with_opt=False, with_sites=False,
                                allow_zero=False, hosts=("func",)))
        calls = draw(G.calls_for(ms["methods"], corpus, ms["kwpool"], fitting=fit, n_calls=(3, 8)))
        for c in calls:
            c["script"] = []
        nm = len(ms["methods"])
        perm = draw(st.permutations(list(range(nm))))
        salts = draw(st.lists(st.integers(1, 10 ** 6), min_size=2, max_size=3, unique=True))
        extras = draw(st.lists(st.sampled_from(["arity", "class", "kw", "typeann"]), min_size=1, max_size=3))
        return {"hier": h, "methods": ms["methods"], "calls": calls, "perm": list(perm), "salts": salts,
                "extras": extras, "kwpool": ms["kwpool"]}

    return _case()


def keep_identical_order(methods, perm):
    """registration order from `perm`, except that methods with identical signatures keep their relative order"""
    order = [methods[i]["id"] for i in perm]
    by_id = {m["id"]: m for m in methods}
    groups = {}
    for m in methods:
        groups.setdefault(R.canon(M.sig_key(m)), []).append(m["id"])
    for ids in groups.values():
        if len(ids) > 1:
            slots = sorted(order.index(i) for i in ids)
            for slot, i in zip(slots, ids):
                order[slot] = i
    return order


def extra_methods(spec):
    """methods that cannot apply to any probed call; they reuse the case's position names and keyword pool (a new
    name would legitimately change the calling convention)"""
    methods = spec["methods"]
    strict = bool(methods[0]["pos"]) and methods[0]["pos"][0].get("posonly")
    arities = {len(c["args"]) for c in spec["calls"]} | {len(m["pos"]) for m in methods}
    nid = max(m["id"] for m in methods) + 1
    out = []
    for kind in spec["extras"]:
        if kind == "arity":
            ar = max(arities) + 1
            pos = [{"name": f"q{nid}_{j}" if strict else f"a{j}", "ann": ["obj"]} for j in range(ar)]
            kw = []
        elif kind == "typeann":
            # a type[...] annotation (switches the lookup of that position to type[x] for class-valued arguments); it
            # takes class objects only, the probed calls pass instances
            ar = sorted(arities)[0] or 1
            pos = [{"name": f"q{nid}_{j}" if strict else f"a{j}", "ann": ["type", ["cls", "KX"]] if j == 0 else ["obj"]}
                   for j in range(ar)]
            kw = []
        elif kind == "class":
            ar = sorted(arities)[0] or 1
            pos = [{"name": f"q{nid}_{j}" if strict else f"a{j}", "ann": ["cls", "KX"] if j == 0 else ["obj"]}
                   for j in range(ar)]
            kw = []
        else:
            if not spec.get("kwpool"):
                continue
            ar = sorted(arities)[-1]
            pos = [{"name": f"q{nid}_{j}" if strict else f"a{j}", "ann": ["obj"]} for j in range(ar)]
            kw = [{"name": "kz", "ann": ["obj"]}]
        if strict:
            for p in pos:
                p["posonly"] = True
        out.append({"id": nid, "pos": pos, "kw": kw, "prio": 0})
        nid += 1
    return out


def run_config(spec, methods, order, salt, env=None):
    env = env or H.build(spec["hier"])
    if "KX" not in env:
        env["KX"] = type("KX", (), {"__module__": "verifhier"})
    with O.controlled_order(salt):
        prog = Program({"hier": spec["hier"], "methods": methods, "host": "func"}, env=env, order=order)
        try:
            vec = []
            for c in spec["calls"]:
                args = [S.build_value(v, env) for v in c["args"]]
                kws = {k: S.build_value(v, env) for k, v in c["kw"].items()}
                out = prog.call(args, kws)
                kind = "nomethod" if out.kind == "rejected" else out.kind
                if kind == "other" and "CycleError" in out.detail:
                    kind = "other:CycleError"
                vec.append([kind, out.value.mid if out.kind == "ok" else None])
            return vec
        finally:
            prog.close()


def hooked_overlap(spec):
    """does the method set contain two different combinator / dependent annotations at one position?  (the shapes
    whose mutual order is affected by the recorded finding F5)"""
    per = {}
    for m in spec["methods"]:
        for j, p in enumerate(m["pos"]):
            per.setdefault(j, []).append(M.ann_of(p))
        for p in m["kw"]:
            per.setdefault(p["name"], []).append(M.ann_of(p))
    for anns in per.values():
        hooked = {R.canon(a) for a in anns if a[0] in ("union", "inter", "exactly", "strict", "hasmethod")
                  or S.is_dependent_spec(a)}
        comb = {R.canon(a) for a in anns if a[0] in ("union", "inter", "exactly", "tup")}
        if len(hooked) >= 2 and comb:
            return True
    return False


def run_case(spec):
    res = R.CaseResult()
    methods = spec["methods"]
    base_order = [m["id"] for m in methods]
    try:
        base = run_config(spec, methods, base_order, 0)
    except Exception as e:  # noqa: BLE001
        res.fail(f"baseline run failed: {type(e).__name__}: {e}", None)
        return res
    f5 = hooked_overlap(spec)

    def compare(label, vec):
        if vec != base:
            i = next(k for k in range(len(base)) if vec[k] != base[k])
            c = spec["calls"][i]
            sig = None
            if f5 and "other:CycleError" in (vec[i][0], base[i][0]):
                # F5's consequence: in some set orders the per-argument sort of hook-owning types is cyclic
                sig = "C06:order-dependent-between-hook-owning-types"
            res.fail(f"configuration {label}: call args={c['args']} kw={c['kw']} gives {vec[i]}, baseline {base[i]}", sig)
            return False
        return True

    multi = False
    env = H.build(spec["hier"])
    for c, b in zip(spec["calls"], base):
        args = [S.build_value(v, env) for v in c["args"]]
        kws = {k: S.build_value(v, env) for k, v in c["kw"].items()}
        app, unk = M.applicable_set(methods, args, kws, env)
        if len(app) + len(unk) >= 2:
            multi = True
    # (a) registration order
    order = keep_identical_order(methods, spec["perm"])
    if order != base_order:
        res.label("config:registration-order")
        if not compare(f"registration order {order}", run_config(spec, methods, order, 0)):
            return res
    # (b) iteration orders
    for salt in spec["salts"]:
        res.label("config:set-order")
        if not compare(f"set iteration order salt={salt}", run_config(spec, methods, base_order, salt)):
            return res
        if not compare(f"set order salt={salt} + registration order {order}", run_config(spec, methods, order, salt)):
            return res
    # (c) non-applicable extra methods
    ex = extra_methods(spec)
    if ex:
        res.label("config:extra-methods")
        m2 = methods + ex
        if not compare(f"extra non-applicable methods {[(e['id'], [p['ann'] for p in e['pos']], [k['name'] for k in e['kw']]) for e in ex]}",
                       run_config(spec, m2, [m["id"] for m in m2], 0)):
            return res
        if not compare("extra methods registered first", run_config(spec, m2, [e["id"] for e in ex] + base_order, spec["salts"][0])):
            return res
    res.nontrivial = len(methods) >= 3 and multi
    if f5:
        res.label("has-overlapping-hook-owning-annotations")
    return res


# ----------------------------------------------------------------------------- (d) subprocess batches


def batch_worker(path, pad):
    """child process: run every case of the batch in the natural configuration and print the outcome vectors"""
    junk = [object() for _ in range(pad * 1013)]  # shift allocation addresses before any class is created
    junk2 = [type(f"Pad{i}", (), {}) for i in range(pad * 7)]
    specs = json.load(open(path))
    out = []
    for spec in specs:
        try:
            out.append(run_config(spec, spec["methods"], [m["id"] for m in spec["methods"]], 0))
        except Exception as e:  # noqa: BLE001
            out.append(["error", f"{type(e).__name__}: {e}"])
    del junk, junk2
    print("BATCH-RESULT " + json.dumps(out))


def run_batch(stats, seed, ncases, nproc, sigs):
    from hypothesis import HealthCheck, Phase, given, seed as hseed, settings

    specs = []

    @hseed(seed)
    @settings(max_examples=ncases, database=None, deadline=None, phases=[Phase.generate],
              suppress_health_check=list(HealthCheck))
    @given(case_strategy())
    def collect(spec):
        specs.append(spec)

    collect()
    d = tempfile.mkdtemp(prefix="ovld_c06_")
    try:
        path = os.path.join(d, "batch.json")
        json.dump(specs, open(path, "w"))
        results = []
        for k in range(nproc):
            env = {**os.environ, "PYTHONHASHSEED": str((seed * 31 + k * 7919) % 4294967295 or 1)}
            r = subprocess.run([sys.executable, "-m", "checks.c06", "--batch", path, "--pad", str(k * 3 + (seed % 5))],
                               cwd=boot.VERIF, env=env, capture_output=True, text=True, timeout=3600)
            line = next((l for l in r.stdout.splitlines() if l.startswith("BATCH-RESULT ")), None)
            if line is None:
                raise RuntimeError(f"batch worker failed: rc={r.returncode} {r.stderr[-800:]}")
            results.append(json.loads(line[len("BATCH-RESULT "):]))
        for i, spec in enumerate(specs):
            res = R.CaseResult()
            vecs = [r[i] for r in results]
            res.label("config:subprocess-hashseed+padding")
            res.nontrivial = len(spec["methods"]) >= 3
            for k, v in enumerate(vecs[1:], 1):
                if v != vecs[0]:
                    j = next((x for x in range(min(len(v), len(vecs[0]))) if v[x] != vecs[0][x]), 0)
                    res.fail(f"subprocess {k} (other hash seed / allocation padding) differs from subprocess 0 at call "
                             f"{spec['calls'][j] if j < len(spec['calls']) else j}: {v[j] if j < len(v) else v} vs "
                             f"{vecs[0][j] if j < len(vecs[0]) else vecs[0]}",
                             "C06:order-dependent-between-hook-owning-types"
                             if hooked_overlap(spec) and "other:CycleError" in (str(v[j][0]) if j < len(v) else "",
                                                                                   str(vecs[0][j][0]) if j < len(vecs[0]) else "")
                             else None)
                    break
            stats.add_case(spec, res)
            for dd in res.disagreements:
                if dd.signature in sigs:
                    stats.known[dd.signature] += 1
                elif len(stats.failures) < 3:
                    stats.failures.append({"spec": dict(spec, _subprocess_batch=True), "message": dd.message,
                                           "signature": dd.signature})
    finally:
        import shutil

        shutil.rmtree(d, ignore_errors=True)


class Check:
    id = "C06"
    level = "exploration"
    rule = (
        "Hypothesis: hierarchy x <=6 methods (static, combinator with shared members, dependent on the same bound; 1-2 "
        "positions, keyword-only, priorities; 1 case in 8: 3-6 Literal-keyed methods with partly shared values) x 3-8 calls, each executed under: the natural configuration, a permuted "
        "registration order, 2-3 harness-chosen set iteration orders (alone and combined with the permutation), and with "
        "1-3 extra non-applicable methods (registered last / first); plus batches of cases re-run in fresh "
        "subprocesses with different hash seeds and allocation padding. Outcome vectors must be identical. "
        "Non-trivial = >=3 methods and >=2 applicable to some probed call; distinct by case hash."
    )
    assumptions = [
        "only outcome kinds / winners are compared, never error texts or candidate listings",
        "extra methods reuse the case's parameter names (a new name legitimately changes the calling convention)",
    ]

    def tasks(self, tier, seed):
        per = 120 if tier == "quick" else 4000
        t = [{"kind": "rand", "seed": seed * 1000 + i, "n": per} for i in range(14)]
        nb = 2 if tier == "quick" else 16
        t += [{"kind": "batch", "seed": seed * 1000 + 900 + i, "n": 150 if tier == "quick" else 400,
               "nproc": 3 if tier == "quick" else 6} for i in range(nb)]
        return t

    def run_task(self, task):
        st = R.Stats()
        sigs = R.open_signatures(self.id)
        if task["kind"] == "rand":
            R.run_given(st, case_strategy(), run_case, task["seed"], task["n"], sigs)
        else:
            run_batch(st, task["seed"], task["n"], task["nproc"], sigs)
        return st

    def run_case(self, spec):
        if spec.get("_subprocess_batch"):
            # replay of a subprocess disagreement: re-run the in-process configurations as the best local proxy
            spec = {k: v for k, v in spec.items() if k != "_subprocess_batch"}
        return run_case(spec)


CHECK = Check()

if __name__ == "__main__":
    if "--batch" in sys.argv:
        i = sys.argv.index("--batch")
        pad = int(sys.argv[sys.argv.index("--pad") + 1]) if "--pad" in sys.argv else 0
        batch_worker(sys.argv[i + 1], pad)
        sys.exit(0)
    sys.exit(R.main("checks.c06"))
