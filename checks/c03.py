"""C03 - the dispatcher passes arguments, defaults, results and errors through intact.

Method sets are told apart by the (pairwise unrelated) class of the first positional parameter,
so the expected target never depends on an ordering rule.  Every other parameter is annotated
`object` / unannotated.  Each default is a unique sentinel object, each argument a fresh object,
bodies return a fresh object or raise a fresh exception instance; all comparisons are by identity.
Oracle: the *target's own* signature (model: positionals positionally, keyword-only by keyword;
positional-by-keyword only in the documented uniform-name regime).
"""
import sys

from vlib import boot  # noqa: F401
from vlib import hier as H
from vlib import model as M
from vlib import runner as R
from vlib import spec as S
from vlib.prog import Program

NCLS = 4
# K4 is the class of the "router" method that forwards calls from inside a method body
HIER = {"classes": [{"bases": []} for _ in range(NCLS + 1)]}


def case_strategy():
    from hypothesis import strategies as st

    @st.composite
    def _littable_case(draw):
        """4-5 methods on pairwise different Literal values of one position (the dispatcher looks the value up in a
        table) with keyword-only parameters: results and raised exceptions pass through, each body runs once"""
        nm = draw(st.integers(4, 5))
        methods = []
        for i in range(nm):
            kw = [{"name": k, "ann": None, "opt": draw(st.booleans())} for k in ["k0", "k1"] if draw(st.integers(0, 2)) == 0]
            methods.append({"id": i, "pos": [{"name": "a0", "ann": ["lit", [i] if draw(st.booleans()) else [i, i + 10]],
                                              "opt": False}], "kw": kw, "prio": 0})
        calls = []
        for _ in range(draw(st.integers(2, 8))):
            t = draw(st.sampled_from(methods))
            calls.append({"target": t["id"], "n": 1, "bykw": 0, "skip_first": False, "raise": draw(st.booleans()),
                          "kws": sorted(p["name"] for p in t["kw"] if not p.get("opt") or draw(st.booleans())),
                          "via": draw(st.sampled_from(["dispatch", "dispatch", "ovld"]))})
        return {"methods": methods, "calls": calls, "host": draw(st.sampled_from(["func", "func", "attr", "mc"])),
                "uniform": True, "router": False, "littable": True}

    @st.composite
    def _case(draw):
        if draw(st.integers(0, 11)) == 0:
            return draw(_littable_case())
        nm = draw(st.integers(1, 4))
        uniform = draw(st.booleans())
        ustart = draw(st.sampled_from([9, 9, 1, 2]))  # positions >= ustart are named uniformly even if not `uniform`
        host = draw(st.sampled_from(["func", "func", "attr", "mc"]))
        # keyword-only names, sometimes ones that the generated entry point might use for itself
        kwpool = draw(st.sampled_from([["k0", "k1", "k2"]] * 4 + [["type", "MISSING", "method"], ["KWARGS", "TARGS", "k0"],
                                                                     ["OVLD", "isinstance", "tuple"], ["ARG0", "self_", "HANDLER0"],
                                                                     ["ARG1", "ARG2", "k0"]]))
        methods = []
        zero_used = False
        for i in range(nm):
            kind = draw(st.sampled_from(["typed"] * 6 + ["zero", "allopt"]))
            pos = []
            if kind == "zero" and not zero_used:
                zero_used = True
                npos = 0
            else:
                npos = draw(st.integers(1, 3))
            seen_opt = kind == "allopt"
            for j in range(npos):
                name = f"a{j}" if (uniform or j >= ustart) else f"p{i}_{j}"
                opt = seen_opt or draw(st.integers(0, 2)) == 0
                if j == 0 and kind != "allopt":
                    opt = False
                seen_opt = seen_opt or opt
                ann = ["cls", f"K{i}"] if j == 0 else draw(st.sampled_from([None, ["obj"]]))
                pos.append({"name": name, "ann": ann, "opt": opt})
            npo = draw(st.integers(0, npos)) if draw(st.integers(0, 3)) == 0 else 0
            for j in range(npo):
                pos[j]["posonly"] = True
            kw = []
            for k in kwpool:
                if draw(st.integers(0, 2)) == 0:
                    kw.append({"name": k, "ann": draw(st.sampled_from([None, ["obj"], ["cls", "int"]])),
                               "opt": draw(st.booleans())})
            methods.append({"id": i, "pos": pos, "kw": kw, "prio": 0})
        calls = []
        for _ in range(draw(st.integers(2, 8))):
            t = draw(st.sampled_from(methods))
            lo, hi = M.req_pos(t), M.max_pos(t)
            n = draw(st.integers(lo, hi)) if draw(st.integers(0, 7)) else draw(st.integers(0, 4))
            kws = []
            for p in t["kw"]:
                if not p.get("opt") or draw(st.booleans()):
                    kws.append(p["name"])
            if draw(st.integers(0, 9)) == 0 and kws:
                kws.pop(0)
            if draw(st.integers(0, 14)) == 0:
                kws.append(draw(st.sampled_from(kwpool)))
            bykw = 0
            if n and draw(st.integers(0, 3)) == 0:
                bykw = draw(st.integers(1, n))
            skip_first = draw(st.integers(0, 5)) == 0  # omit an optional leading positional while giving a later one by keyword
            calls.append({"target": t["id"], "n": n, "kws": sorted(set(kws)), "bykw": bykw, "skip_first": skip_first,
                          "raise": draw(st.integers(0, 5)) == 0,
                          "via": draw(st.sampled_from(["dispatch", "dispatch", "ovld"]))})
        return {"methods": methods, "calls": calls, "host": host, "uniform": uniform, "router": draw(st.integers(0, 2)) > 0}

    return _case()


class Arg:
    __slots__ = ("tag",)

    def __init__(self, tag):
        self.tag = tag

    def __repr__(self):
        return f"<arg {self.tag}>"


def call_shape(c, t):
    """(number of positionals actually passed, sorted keyword names) of a probed call - as run_case builds it"""
    n = c["n"]
    kws = set(c["kws"])
    bykw = c.get("bykw", 0)
    npass = n
    if bykw and n <= len(t["pos"]):
        names = [t["pos"][j]["name"] for j in range(n - bykw, n)]
        if not (any(t["pos"][j].get("posonly") for j in range(n - bykw, n)) or set(names) & kws):
            kws |= set(names)
            npass = n - bykw
            if c.get("skip_first") and npass and t["pos"][npass - 1].get("opt"):
                npass -= 1
    return (npass, tuple(sorted(kws)))


def forward(res, prog, env, router, c, t, call_args, call_kws, out):
    direct_log = list(prog.H.log)
    shape = (len(call_args), tuple(sorted(call_kws)))
    if shape not in router["_shapes"]:
        return
    base = router["_shapes"].index(shape) * 4
    rargs = [env[f"K{NCLS}"]()] + [Arg("r")] * (len(router["pos"]) - 1)
    norm = lambda k: "nomethod" if k == "rejected" else k  # noqa: E731
    for off, label in enumerate(("recurse(args)", "recurse(*args, **kw)", "call_next(args)", "call_next(*args, **kw)")):
        o2 = prog.call(rargs, {}, script=[["site", base + off, "raw", {}]], raw_site_args=call_args, raw_site_kwargs=call_kws)
        log2 = list(prog.H.log)
        res.label("forwarded:" + label.split("(")[0] + ("*" if "*" in label else ""))
        if norm(o2.kind) != norm(out.kind):
            res.fail(f"call shape ({len(call_args)} positionals, keywords {sorted(call_kws)}) for m{t['id']} forwarded from a "
                     f"method body with {label}: {o2.brief()} - the direct call gives {out.brief()}",
                     "C03:forwarded-shape-differs")
            return
        if out.kind == "ok" and direct_log and len(log2) >= 2:
            (m1, loc1), (m2, loc2) = direct_log[0], log2[1]
            bad = m1 != m2 or any(loc1.get(k) is not loc2.get(k) for k in loc1 if k != "self"
                                  and not isinstance(loc1.get(k), type(prog.defaults and next(iter(prog.defaults.values()), None))))
            if m1 != m2 or any((loc2.get(k) is not v) for k, v in call_kws.items()):
                res.fail(f"call shape ({len(call_args)} positionals, keywords {sorted(call_kws)}) forwarded with {label}: ran "
                         f"m{m2} with {loc2}, the direct call ran m{m1} with {loc1}", "C03:forwarded-shape-differs")
                return


def run_case(spec):
    res = R.CaseResult()
    env = H.build(HIER)
    methods = spec["methods"]
    router = None
    if spec.get("router") and any(m["pos"] for m in methods):
        # a method on an unrelated class whose body re-issues each probed call shape with recurse(...) - written
        # statically and with * / ** - and call_next(...): the shape must be served exactly like the direct call
        maxp0 = max(len(m["pos"]) for m in methods)
        rid = max(m["id"] for m in methods) + 1

        def pname(j):
            names = {m["pos"][j]["name"] for m in methods if j < len(m["pos"])}
            return names.pop() if len(names) == 1 else f"p{rid}_{j}"

        rpos = [{"name": pname(0), "ann": ["cls", f"K{NCLS}"], "opt": False}]
        rpos += [{"name": pname(j), "ann": ["obj"], "opt": False} for j in range(1, maxp0)]
        if any(p.get("posonly") for m in methods for p in m["pos"]):
            for p in rpos:
                p["posonly"] = True
        router = {"id": rid, "pos": rpos, "kw": [], "prio": 50, "sites": []}
        shapes = []
        for c in spec["calls"]:
            t0 = next(m for m in methods if m["id"] == c["target"])
            sh = call_shape(c, t0)
            if sh not in shapes:
                shapes.append(sh)
        for npos_, kwn in shapes[:6]:
            for fn in ("recurse", "call_next"):
                router["sites"].append({"fn": fn, "npos": npos_, "kws": list(kwn)})
                router["sites"].append({"fn": fn, "npos": npos_, "kws": list(kwn), "star": True})
        router["_shapes"] = shapes[:6]
    prog = Program({"hier": HIER, "methods": methods + ([router] if router else []), "host": spec["host"]}, env=env)
    try:
        maxp = max((len(m["pos"]) for m in methods), default=0)
        n_opt_pos = len([j for j in range(maxp)
                         if any(j >= len(m["pos"]) or m["pos"][j].get("opt") for m in methods)])
        uniform_names = all(
            len({m["pos"][j]["name"] for m in methods if j < len(m["pos"])}) == 1
            and not any(m["pos"][j].get("posonly") for m in methods if j < len(m["pos"]))
            for j in range(max((len(m["pos"]) for m in methods), default=0))
        )
        distinct_defaults = sum(1 for m in methods if any(p.get("opt") for p in m["pos"] + m["kw"])) >= 1
        for c in spec["calls"]:
            t = prog.by_id[c["target"]]
            n = c["n"]
            args = []
            for j in range(n):
                if j == 0 and t["pos"] and t["pos"][0].get("ann") and t["pos"][0]["ann"][0] == "lit":
                    args.append(S.lit_value(t["pos"][0]["ann"][1][-1]))
                elif j == 0:
                    args.append(env[f"K{t['id']}"]())
                else:
                    args.append(Arg(f"p{j}"))
            kws = {}
            for k in c["kws"]:
                p = next((p for p in t["kw"] if p["name"] == k), None)
                kws[k] = 7 if (p and p.get("ann") == ["cls", "int"]) else Arg(k)
            exp = M.resolve(methods, args, kws, env)
            # positional-by-keyword: documented only when every method names every position identically and at most
            # one positional is optional overall.  Outside that regime the shape may be refused, but if it is
            # served the binding must still be exact (never a silently dropped keyword).
            call_args, call_kws = list(args), dict(kws)
            bykw = c.get("bykw", 0)
            documented = True
            if bykw and n <= len(t["pos"]):
                names = [t["pos"][j]["name"] for j in range(n - bykw, n)]
                if any(t["pos"][j].get("posonly") for j in range(n - bykw, n)) or set(names) & set(kws):
                    bykw = 0
                else:
                    documented = uniform_names and n_opt_pos <= 1
                    for j in range(n - bykw, n):
                        call_kws[t["pos"][j]["name"]] = call_args[j]
                    call_args = call_args[: n - bykw]
                    if c.get("skip_first") and call_args and t["pos"][len(call_args) - 1].get("opt"):
                        # drop the last positionally supplied (optional) argument: it takes its default
                        call_args = call_args[:-1]
                        documented = False
                    res.label("positional-by-keyword" + ("" if documented else "-undocumented"))
            else:
                bykw = 0
            via = prog.ov if (c.get("via") == "ovld" and spec["host"] == "func") else None
            out = prog.call(call_args, call_kws, script=[["raise"]] if c.get("raise") else None, via=via)
            if router is not None and not c.get("raise") and via is None and out.kind not in ("other", "badcall"):
                keep = (prog.H.log, prog.H.results, prog.H.raised)
                forward(res, prog, env, router, c, t, call_args, call_kws, out)
                prog.H.log, prog.H.results, prog.H.raised = keep
            omitted = n < len(t["pos"]) or any(p["name"] not in kws for p in t["kw"])
            if (omitted or kws) and len(methods) >= 2:
                res.nontrivial = True
            res.label("exp:" + exp[0], f"host:{spec['host']}")
            if omitted:
                res.label("omits-optional")
            if kws:
                res.label("supplies-keyword")
            if n == 0:
                res.label("zero-positional")
            desc = f"call target=m{t['id']} n={n} kws={sorted(kws)} bykw={bykw} via={c.get('via')}"
            if bykw and not documented:
                # undocumented shape: refusing is fine; serving it must not lose or misplace anything
                if out.kind in ("other", "badcall"):
                    res.fail(f"{desc} (positional by keyword, undocumented): {out.brief()}", None)
                elif prog.H.log:
                    mid, loc = prog.H.log[0]
                    mm = prog.by_id[mid]
                    bad = [f"{k}={loc.get(k)!r}" for k, v in call_kws.items() if loc.get(k) is not v]
                    bad += [f"{mm['pos'][j]['name']}={loc.get(mm['pos'][j]['name'])!r}" for j, v in enumerate(call_args)
                            if j < len(mm["pos"]) and loc.get(mm["pos"][j]["name"]) is not v]
                    if bad:
                        res.fail(f"{desc}: call f(*{len(call_args)} positionals, **{sorted(call_kws)}) was served by "
                                 f"m{mid} but supplied arguments were lost or misplaced: {bad}",
                                 "C03:keyword-dropped-when-earlier-optional-positional-omitted")
                continue
            if exp[0] == "method":
                m = prog.by_id[exp[1]]
                if out.kind in ("nomethod", "rejected", "ambiguous", "badcall", "other", "config"):
                    res.fail(f"{desc}: shape accepted by m{m['id']} but call failed: {out.brief()}",
                             classify(spec, c, n, kws, out))
                    continue
                if not prog.H.log:
                    res.fail(f"{desc}: no body ran, outcome {out.brief()}", None)
                    continue
                mid, loc = prog.H.log[0]
                if mid != m["id"]:
                    res.fail(f"{desc}: ran m{mid}, expected m{m['id']}", classify(spec, c, n, kws, out))
                    continue
                # binding by identity
                bad = []
                for j, p in enumerate(m["pos"]):
                    want = args[j] if j < n else prog.defaults[(m["id"], p["name"])]
                    if loc.get(p["name"]) is not want:
                        bad.append(f"{p['name']}={loc.get(p['name'])!r} (want {want!r})")
                for p in m["kw"]:
                    want = kws[p["name"]] if p["name"] in kws else prog.defaults[(m["id"], p["name"])]
                    if loc.get(p["name"]) is not want:
                        bad.append(f"{p['name']}={loc.get(p['name'])!r} (want {want!r})")
                if prog.is_method and loc.get("self") is not prog.obj:
                    bad.append(f"self={loc.get('self')!r}")
                extra = set(loc) - {p["name"] for p in m["pos"] + m["kw"]} - {"self"}
                if extra:
                    bad.append(f"unexpected locals {sorted(extra)}")
                if bad:
                    res.fail(f"{desc}: wrong binding in m{mid}: {'; '.join(bad)}", classify(spec, c, n, kws, out))
                    continue
                if c.get("raise"):
                    if out.kind != "user" or out.exc is not prog.H.raised[0]:
                        res.fail(f"{desc}: raised exception did not reach the caller unchanged: {out.brief()}", None)
                else:
                    if out.kind != "ok" or out.value is not prog.H.results[0]:
                        res.fail(f"{desc}: return value did not reach the caller unchanged: {out.brief()}", None)
            elif exp[0] == "nomethod":
                if out.kind not in ("nomethod", "rejected"):
                    res.fail(f"{desc}: no method accepts this shape but outcome is {out.brief()}"
                             f" trace={prog.H.trace()}", classify(spec, c, n, kws, out))
                elif prog.H.log:
                    res.fail(f"{desc}: body ran although the call raised", None)
            elif exp[0] == "ambiguous":
                res.skipped.append("ambiguous-by-shape")
            else:
                res.skipped.append("unspec")
    finally:
        prog.close()
    return res


def classify(spec, c, n, kws, out):
    methods = spec["methods"]
    if n == 0 and not kws and out.kind == "nomethod" and not any(len(m["pos"]) == 0 and not m["kw"] for m in methods):
        return "C03:zero-argument-call-of-all-optional-signature:nomethod"
    return None


class Check:
    id = "C03"
    level = "exploration"
    rule = (
        "Hypothesis-generated signature sets (1-4 methods told apart by the unrelated class of the first "
        "parameter; required/optional/positional-only positionals, required/optional keyword-only, functions, "
        "plain methods and OvldBase methods, uniform or differing positional names) x call shapes (number of "
        "positionals x keyword subset x positional-by-keyword where documented x return/raise x entry via "
        "dispatch function or Ovld object; 1 case in 12 is a literal-table family: 4-5 Literal methods of one position; "
        "every second raised exception is a TypeError subclass). Oracle: the target's own signature with unique sentinel defaults, "
        "everything by identity. Non-trivial = the call omits an optional parameter or supplies a keyword and "
        "the set has >=2 methods; distinct by (signature set, call) hash."
    )
    assumptions = [
        "positional-by-keyword is asserted only in the documented regime (uniform names, <=1 optional positional)",
        "calls with several shape-applicable methods of the same first class are skipped (C02's subject)",
    ]

    def tasks(self, tier, seed):
        per = 800 if tier == "quick" else 8000
        return [{"kind": "rand", "seed": seed * 1000 + i, "n": per} for i in range(16)]

    def run_task(self, task):
        st = R.Stats()
        R.run_given(st, case_strategy(), run_case, task["seed"], task["n"], R.open_signatures(self.id))
        return st

    def run_case(self, spec):
        return run_case(spec)


CHECK = Check()

if __name__ == "__main__":
    sys.exit(R.main("checks.c03"))
