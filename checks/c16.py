"""C16 - variants and mixins compose without ever disturbing their parents.

History over a graph of overloaded functions: root / copy(variant) / Ovld(mixins=...) / add_mixins /
register / unregister / call, with and without linkback, at most 6 nodes.  `call` is an explicit
operation because using a function is what locks its ancestors.
Model: effective methods of a node = parents' (mixin order) overlaid by own.  Oracles:
  * every call, and a final probe of every node on a fixed value set, equals a FRESH function built from
    the model's effective set (no drift, no leakage into parents or siblings);
  * a modification of a node that has a used strict descendant reachable only through non-linkback edges
    must be refused with the 'locked' error; if every path from every used descendant is linkback it must be
    accepted (and the invariant above then shows it reached the descendants); mixed paths: either;
  * a node without used descendants accepts modifications.
"""
import sys

from vlib import boot  # noqa: F401
from vlib import graph as GR
from vlib import hier as H
from vlib import model as M
from vlib import runner as R
from vlib import spec as S
from vlib.outcome import capture

import ovld

HIER = {"classes": [{"bases": []}, {"bases": [0]}, {"bases": []}]}
ANNS = [["cls", "int"], ["cls", "str"], ["obj"], ["cls", "K0"], ["cls", "K1"], ["cls", "K2"], ["cls", "bool"]]
VALUES = [["int", 1], ["str", "s"], ["inst", "K0"], ["inst", "K1"], ["inst", "K2"], ["bool", True], ["float", 1.5],
          ["list", [["int", 1], ["inst", "K1"]]]]
MAXN = 6


def case_strategy():
    from hypothesis import strategies as st

    @st.composite
    def _dup_case(draw):
        """a derivation in which parent and child each register one signature more than once, then one of the child's
        (or the parent's, with linkback) duplicates is unregistered: the child's own survivor must still replace the
        inherited methods of that signature"""
        a = draw(st.integers(0, 1))  # int / str
        lb = draw(st.booleans())
        ops = [["root"]] + [["register", 0, a, 0, "leaf"]] * draw(st.integers(1, 2)) + [["register", 0, 2, 0, "leaf"]]
        ops += [["copy", 0, lb]] + [["register", 1, a, 0, "leaf"]] * draw(st.integers(1, 3))
        if draw(st.booleans()):
            ops += [["copy", 1, draw(st.booleans())], ["register", 2, a, 0, "leaf"]]
        for _ in range(draw(st.integers(2, 8))):
            k = draw(st.sampled_from(["unregister", "unregister", "register", "call", "call"]))
            node = draw(st.integers(0, 2))
            if k == "unregister":
                ops.append(["unregister", node, draw(st.integers(0, 3))])
            elif k == "register":
                ops.append(["register", node, a, 0, "leaf"])
            else:
                ops.append(["call", node, a])
        return {"ops": ops}

    @st.composite
    def _case(draw):
        if draw(st.integers(0, 5)) == 0:
            return draw(_dup_case())
        n = draw(st.sampled_from([6, 10, 16, 25]))
        ops = [["root"], ["register", 0, draw(st.integers(0, len(ANNS) - 1)), 0, "leaf"]]
        for _ in range(n):
            k = draw(st.sampled_from(["root", "copy", "copy", "copy", "mixins", "add_mixins", "register", "register",
                                      "register", "unregister", "call", "call", "call", "call"]))
            a, b, c = draw(st.integers(0, 9)), draw(st.integers(0, 9)), draw(st.integers(0, 9))
            if k == "root":
                ops.append(["root"])
            elif k == "copy":
                ops.append(["copy", a, draw(st.booleans())])
            elif k == "mixins":
                ops.append(["mixins", [a, b] + ([c] if draw(st.integers(0, 2)) == 0 else []), draw(st.booleans())])
            elif k == "add_mixins":
                ops.append(["add_mixins", a, b])
            elif k == "register":
                ops.append(["register", a, draw(st.integers(0, len(ANNS) - 1)), draw(st.sampled_from([0, 0, 1])),
                            draw(st.sampled_from(["leaf", "leaf", "leaf", "walk_list", "next"]))])
            elif k == "unregister":
                ops.append(["unregister", a, b])
            else:
                ops.append(["call", a, draw(st.integers(0, len(VALUES) - 1))])
        return {"ops": ops}

    return _case()


class Model:
    def __init__(self):
        self.parents = {}  # node -> [parent ids] (mixin order)
        self.linkback = {}  # node -> bool (its own edges to its parents)
        self.own = {}  # node -> [methods]
        self.used = set()

    def effective(self, node, seen=()):
        return GR.overlay([self.effective(p) for p in self.parents[node]], self.own[node])

    def ancestors_paths(self, node):
        """yield (ancestor, has_nonlinkback_edge, all_nonlinkback) for every path upwards from node"""
        stack = [(node, False, True)]
        while stack:
            cur, anynl, allnl = stack.pop()
            for p in self.parents[cur]:
                nl = not self.linkback[cur]
                item = (p, anynl or nl, allnl and nl)
                yield item
                stack.append(item)

    def lock_expectation(self, target):
        """'refuse' | 'accept' | 'either' for a modification of `target`"""
        must_refuse = False
        may_refuse = False
        for n in self.used:
            if n == target:
                continue
            for anc, anynl, allnl in self.ancestors_paths(n):
                if anc == target:
                    if allnl:
                        must_refuse = True
                    if anynl:
                        may_refuse = True
        if must_refuse:
            return "refuse"
        return "either" if may_refuse else "accept"


def fresh_observe(eff, value, env):
    """observation of `value` on a brand-new function with exactly the methods `eff`"""
    g = GR.FnGraph(HIER, env=env)
    try:
        g.create(0, "root")
        for m in eff:
            g.register(0, dict(m, rec="recurse"))
        out = g.call(0, value)
        return (out.kind, out.value if out.kind == "ok" else None)
    finally:
        g.close()


def conflicted(model, node):
    """identical signature contributed by two different parents (overlay order undocumented)"""
    ps = model.parents[node]
    if any(conflicted(model, p) for p in ps):
        return True
    if len(ps) >= 2:
        seen = {}
        for p in ps:
            for m in model.effective(p):
                k = M.sig_key(GR.as_model_method(m))
                if k in seen and seen[k] != m["id"]:
                    return True
                seen[k] = m["id"]
    return False


def run_case(spec):
    res = R.CaseResult()
    env = H.build(HIER)
    g = GR.FnGraph(HIER, env=env)
    model = Model()
    mid = [0]
    stats = {"grandchild": False, "two_children": False, "first_use": False, "mod_after_use": False,
             "reregistered_own_signature": False}
    # a call_next chain also walks through replaced methods of identical signature (C07's subject; how that composes
    # across a derivation is not documented): histories with call_next bodies keep one method per signature per node
    has_next = any(op[0] == "register" and op[4] == "next" for op in spec["ops"])

    def probe(node, vi, step, why):
        if not model.effective(node):
            return True
        if conflicted(model, node):
            res.skipped.append("identical-signature-from-two-parents")
            return True
        value = S.build_value(VALUES[vi], env)
        exp = fresh_observe(model.effective(node), value, env)
        out = g.call(node, value)
        got = (out.kind, out.value if out.kind == "ok" else None)
        if got != exp:
            res.fail(
                f"step {step} ({why}): node {node} on {VALUES[vi]} gives {got} but a fresh function built from its "
                f"effective methods {[(m['id'], GR.method_ann(m), m['prio']) for m in model.effective(node)]} gives "
                f"{exp} ({out.detail[:160]}) | ops so far {spec['ops'][:step + 1]}",
                "C16:drift-after-accepted-ancestor-modification" if stats["mod_after_use"] else None,
            )
            return False
        return True

    try:
        for step, op in enumerate(spec["ops"]):
            nodes = sorted(model.parents)
            kind = op[0]
            if kind == "root":
                if len(nodes) >= MAXN:
                    continue
                nid = len(nodes)
                g.create(nid, "root")
                model.parents[nid], model.linkback[nid], model.own[nid] = [], False, []
                continue
            if not nodes:
                continue
            if kind in ("copy", "mixins"):
                if len(nodes) >= MAXN:
                    continue
                nid = len(nodes)
                ps = [nodes[op[1] % len(nodes)]] if kind == "copy" else list(dict.fromkeys(nodes[x % len(nodes)] for x in op[1]))
                r = capture(g.create, nid, kind, ps, op[2])
                if r.kind != "ok":
                    res.fail(f"step {step}: {op} failed: {r.brief()}", None)
                    break
                model.parents[nid], model.linkback[nid], model.own[nid] = ps, bool(op[2]), []
                if any(model.parents[p] for p in ps):
                    stats["grandchild"] = True
                for p in ps:
                    if sum(1 for x in model.parents.values() if p in x) >= 2:
                        stats["two_children"] = True
                continue
            node = nodes[op[1] % len(nodes)]
            if kind == "call":
                if conflicted(model, node):
                    res.skipped.append("identical-signature-from-two-parents")
                    continue
                if not probe(node, op[2], step, "call"):
                    break
                if model.effective(node):
                    if node not in model.used:
                        stats["first_use"] = True
                    model.used.add(node)
                continue
            # ---- modifications
            expect = model.lock_expectation(node)
            if kind == "register":
                m = {"id": mid[0], "kind": op[4], "prio": op[3], "owner": node, "rec": "recurse"}
                if op[4] in ("leaf", "next"):
                    m["ann"] = ANNS[op[2]]
                key = M.sig_key(GR.as_model_method(m))
                dup = any(M.sig_key(GR.as_model_method(o)) == key for o in model.own[node])
                if dup and has_next:
                    continue
                if dup:
                    # a node re-registers a signature it already owns: the newer method replaces the older one,
                    # which comes back when the newer one is unregistered (model: own list in registration order)
                    stats["reregistered_own_signature"] = True
                    res.label("own-signature-reregistered")
                mid[0] += 1
                r = capture(g.register, node, m)
                apply = lambda: model.own[node].append(m)  # noqa: E731
            elif kind == "unregister":
                if not model.own[node]:
                    continue
                victim = model.own[node][op[2] % len(model.own[node])]
                if len(model.effective(node)) <= 1:
                    continue
                r = capture(g.unregister, node, victim["id"])
                apply = lambda: model.own[node].remove(victim)  # noqa: E731
            elif kind == "add_mixins":
                other = nodes[op[2] % len(nodes)]
                # no cycles, no duplicates
                if other == node or other in model.parents[node] or node in [a for a, _, _ in model.ancestors_paths(other)]:
                    continue
                r = capture(g.add_mixins, node, [other])
                apply = lambda: model.parents[node].append(other)  # noqa: E731
            else:
                continue
            used_desc = any(n != node and any(a == node for a, _, _ in model.ancestors_paths(n)) for n in model.used)
            if used_desc:
                stats["mod_after_use"] = True
                res.label("modify-ancestor-of-used:" + expect)
            if r.kind == "ok":
                apply()
                if expect == "refuse":
                    res.fail(
                        f"step {step}: {op} on node {node} was accepted although a used descendant derives from it "
                        f"without linkback | ops {spec['ops'][:step + 1]}",
                        "C16:ancestor-not-locked",
                    )
                    break
            elif r.kind == "config":
                if expect == "accept":
                    res.fail(f"step {step}: {op} on node {node} was refused ({r.detail[:80]}) although no used "
                             f"function derives from it through a non-linkback edge | ops {spec['ops'][:step + 1]}",
                             "C16:spurious-lock")
                    break
            else:
                res.fail(f"step {step}: {op} raised {r.brief()}", None)
                break
        else:
            # final probe of every node on every value
            for node in sorted(model.parents):
                ok = True
                for vi in range(len(VALUES)):
                    if not probe(node, vi, len(spec["ops"]), "final probe"):
                        ok = False
                        break
                if not ok:
                    break
        res.nontrivial = (stats["grandchild"] or stats["two_children"]) and stats["first_use"] and stats["mod_after_use"]
        for k, v in stats.items():
            if v:
                res.label(k)
    finally:
        g.close()
    return res


class Check:
    id = "C16"
    level = "exploration"
    rule = (
        "Hypothesis histories (6-25 operations) over a graph of <=6 functions: root / copy / Ovld(mixins) / add_mixins / "
        "register / unregister / call, with and without linkback. Every call and a final probe of every node on 8 "
        "values equal a fresh function built from the model's effective method set; modifications of ancestors of "
        "used functions must be refused (non-linkback) or accepted and visible (linkback). Non-trivial = a history "
        "with a grandchild or two children of one parent, a first use, and a later modification attempt on an ancestor "
        "of a used function; distinct by history hash."
    )
    assumptions = [
        "identical signatures contributed by two different parents are not asserted",
        "paths mixing linkback and non-linkback edges: refusing and accept-and-propagate are both allowed",
    ]

    def tasks(self, tier, seed):
        per = 120 if tier == "quick" else 4000
        return [{"kind": "rand", "seed": seed * 1000 + i, "n": per} for i in range(16)]

    def run_task(self, task):
        st = R.Stats()
        R.run_given(st, case_strategy(), run_case, task["seed"], task["n"], R.open_signatures(self.id))
        return st

    def run_case(self, spec):
        return run_case(spec)


CHECK = Check()

if __name__ == "__main__":
    sys.exit(R.main("checks.c16"))
