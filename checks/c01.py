"""C01 - a method only ever runs on arguments its declared signature accepts.

Generated: hierarchy x method set (arity 0-3, optional / positional-only positionals, required /
optional keyword-only, priorities, functions / plain methods / OvldBase methods; annotations from
the whole algebra) x calls (corpus values, positional counts, keyword subsets) x delegation scripts
(bodies are also entered through recurse / call_next / f.next with same or different arguments).
Oracle: inside EVERY entered body, each bound parameter value satisfies the hand-written documented
meaning of its own annotation (vlib.spec.accepts - not ovld's isinstance); no argument-binding
TypeError from invoking a selected method; no internal error leaks.
Nothing is asserted about WHICH method runs (C02 / C10).
"""
import sys

from vlib import boot  # noqa: F401
from vlib import gen as G
from vlib import hier as H
from vlib import model as M
from vlib import runner as R
from vlib import spec as S
from vlib.prog import Default, Program


def case_strategy():
    from hypothesis import strategies as st

    @st.composite
    def _case(draw):
        if draw(st.integers(0, 7)) == 0:
            return draw(G.literal_table_case())  # the lookup-table path of the dependent dispatcher
        h = draw(H.hierarchies(1, 6))
        knames = H.class_names(h)
        env = H.build(h)
        corpus = G.value_corpus(knames)
        fit = G.fitting_fn(env, corpus)
        ms = draw(G.method_sets(knames, G.satisfiable(G.any_ann(knames, p_dep=0.35), fit)))
        calls = draw(G.calls_for(ms["methods"], corpus, ms["kwpool"], fitting=fit))
        return {"hier": h, "methods": ms["methods"], "host": ms["host"], "calls": calls}

    return _case()


def run_case(spec):
    res = R.CaseResult()
    env = H.build(spec["hier"])
    try:
        prog = Program({"hier": spec["hier"], "methods": spec["methods"], "host": spec["host"]}, env=env)
    except Exception as e:  # building the program itself must not fail for a sound method set
        res.fail(f"program construction failed: {type(e).__name__}: {e}", None)
        return res
    try:
        methods = spec["methods"]
        for c in spec["calls"]:
            args = [S.build_value(v, env) for v in c["args"]]
            kws = {k: S.build_value(v, env) for k, v in c["kw"].items()}
            out = prog.call(args, kws, script=c.get("script"))
            res.label("out:" + out.kind)
            log = prog.H.log
            if log:
                res.label("entered")
            if len(log) >= 2:
                res.label("nested-entry")
            filtered = False
            for depth, (mid, loc) in enumerate(log):
                m = prog.by_id[mid]
                for p in m["pos"] + (m.get("kw") or []):
                    if p["name"] not in loc:
                        res.fail(f"m{mid}: parameter {p['name']} unbound", None)
                        continue
                    v = loc[p["name"]]
                    if isinstance(v, Default) and v is prog.defaults.get((mid, p["name"])):
                        continue  # omitted by the caller: the method's own default
                    ok = S.accepts(M.ann_of(p), v, env)
                    if ok is None:
                        res.skipped.append("accepts-unspecified:" + M.ann_of(p)[0])
                    elif ok is False:
                        res.fail(
                            f"call args={c['args']} kw={c['kw']} script={c.get('script')}: body m{mid} entered "
                            f"(depth {depth}) with {p['name']}={v!r} which its annotation {M.ann_of(p)} excludes",
                            classify(m, p, v),
                        )
                if depth == 0:
                    for o in methods:
                        if o is not m and M.applicable(o, args, kws, env) is False:
                            filtered = True
            if log and filtered:
                res.nontrivial = True
            if out.kind in ("badcall", "other"):
                res.fail(
                    f"call args={c['args']} kw={c['kw']} script={c.get('script')}: {out.brief()} trace={prog.H.trace()}",
                    classify_exc(spec, c, out),
                )
    finally:
        prog.close()
    return res


def classify(m, p, v):
    return None


def classify_exc(spec, c, out):
    from vlib.outcome import F5_CYCLE, is_f5_cycle

    return F5_CYCLE if is_f5_cycle(out) else None


class Check:
    id = "C01"
    level = "exploration"
    rule = (
        "Hypothesis: hierarchy (1-6 classes, MI, ABCs, protocols) x method set (<=5 methods, arity 0-3, optional / "
        "positional-only / keyword-only parameters, priorities, three host kinds, static + combinator + dependent "
        "annotations) x calls from a value corpus x delegation scripts (nested recurse / call_next / f.next). "
        "Oracle inside every entered body: each bound value satisfies the documented meaning of its annotation. "
        "Non-trivial = a body was entered and at least one other registered method was NOT applicable to the "
        "call (a filter had to work); distinct by canonical case hash."
    )
    assumptions = [
        "value semantics of annotations are the hand-written documented meanings in vlib/spec.py; verdict None "
        "(e.g. Literal equal value of a foreign type) is skipped and counted",
        "predicates are total on their bound by construction",
    ]

    def tasks(self, tier, seed):
        per = 300 if tier == "quick" else 9000
        return [{"kind": "rand", "seed": seed * 1000 + i, "n": per} for i in range(16)]

    def run_task(self, task):
        st = R.Stats()
        R.run_given(st, case_strategy(), run_case, task["seed"], task["n"], R.open_signatures(self.id))
        return st

    def run_case(self, spec):
        return run_case(spec)


CHECK = Check()

if __name__ == "__main__":
    sys.exit(R.main("checks.c01"))
