"""C02 - static resolution = priority, then specificity (partial order!), then recency.

Sub-checks (task kinds):
  exh1 / exh2  exhaustive: every class DAG on n classes (+object) x every ordered sequence of
               <=3 one-position methods / <=2 two-position methods over (type x priority in {0,1})
               x every tuple of argument classes
  rand         Hypothesis: <=8 classes incl. ABCs / protocols, <=7 methods, 1-3 positions,
               required keyword-only typed parameters, priorities -1..2, repeated signatures,
               methods of other arities mixed in
Oracle: vlib.model.resolve (independent re-statement of the rule) vs the call and vs resolve().
"""
import itertools
import sys

from vlib import boot  # noqa: F401  (sys.path)
from vlib import hier as H
from vlib import model as M
from vlib import runner as R
from vlib import spec as S
from vlib.outcome import capture
from vlib.prog import Program

import ovld

# ----------------------------------------------------------------------------- fast programs

_TEMPLATES = {}


def make_fn(mid, npos):
    key = (mid, npos)
    code = _TEMPLATES.get(key)
    if code is None:
        params = ", ".join(f"a{j}" for j in range(npos))
        src = "\n" * mid + f"def m{mid}({params}): return {mid}\n"
        code = _TEMPLATES[key] = compile(src, f"<verif-c02-{npos}>", "exec")
    glb = {}
    exec(code, glb)
    return glb[f"m{mid}"]


def sig_of(spec_m):
    """(types, prio) -> the fields that make a signature identical (all required positionals)."""
    return (tuple(spec_m[0]), spec_m[1])


def model_resolve_fast(methods, argcls, sub):
    """methods: list of (types(tuple of class idx), prio); argcls: tuple of class idx;
    sub[a][b] = issubclass(cls_a, cls_b). Returns ('method', i) / ('nomethod',) / ('ambiguous',)."""
    n = len(argcls)
    app = [
        i
        for i, (ts, _p) in enumerate(methods)
        if len(ts) == n and all(sub[a][t] for a, t in zip(argcls, ts))
    ]
    if not app:
        return ("nomethod",)

    def beats(i, j):
        (ti, pi), (tj, pj) = methods[i], methods[j]
        if pi != pj:
            return pi > pj
        if ti == tj:
            return i > j
        return all(sub[x][y] for x, y in zip(ti, tj))

    for i in app:
        if all(beats(i, j) for j in app if j != i):
            return ("method", i)
    return ("ambiguous",)


def run_exh_case(spec):
    """spec: {"kind": "exh", "hier": h, "npos": n, "methods": [[ [typeidx...], prio ], ...]}
    type index len(classes) means `object`."""
    res = R.CaseResult()
    env = H.build(spec["hier"])
    classes = env["__classes__"] + [object]
    nc = len(classes)
    sub = [[issubclass(a, b) for b in classes] for a in classes]
    methods = [(tuple(m[0]), m[1]) for m in spec["methods"]]
    ov = ovld.Ovld()
    for i, (ts, prio) in enumerate(methods):
        fn = make_fn(i, len(ts))
        fn.__annotations__ = {f"a{j}": classes[t] for j, t in enumerate(ts)}
        ov.register(fn, priority=prio)
    f = ov.dispatch
    npos = spec["npos"]
    insts = [c() for c in classes]
    nontriv = False
    for argcls in itertools.product(range(nc), repeat=npos):
        exp = model_resolve_fast(methods, argcls, sub)
        args = [insts[a] for a in argcls]
        out = capture(f, *args)
        got = ("method", out.value) if out.kind == "ok" else (out.kind,)
        if got != exp:
            res.fail(
                f"call {['K%d' % a if a < nc - 1 else 'object' for a in argcls]}: expected {exp}, got {got}"
                f" ({out.detail[:120]})",
                classify(methods, argcls, sub, exp, got),
            )
            break
        ro = capture(ov.resolve, *args)
        if ro.kind == "ok":
            r2 = capture(ro.value, *args)
            got2 = ("method", r2.value) if r2.kind == "ok" else ("resolve-handler-" + r2.kind,)
        else:
            got2 = (ro.kind,)
        if got2 != exp:
            res.fail(
                f"resolve{tuple(argcls)}: expected {exp}, got {got2}",
                classify(methods, argcls, sub, exp, got2),
            )
            break
        if exp[0] != "nomethod":
            app = [
                i for i, (ts, _p) in enumerate(methods)
                if all(sub[a][t] for a, t in zip(argcls, ts))
            ]
            if len(app) >= 2:
                nontriv = True
    res.nontrivial = nontriv
    return res


def classify(methods, argcls, sub, exp, got):
    """Narrow signatures of the listed findings (trigger AND failure mode); None otherwise."""
    app = [
        (ts, p) for (ts, p) in methods
        if len(ts) == len(argcls) and all(sub[a][t] for a, t in zip(argcls, ts))
    ]
    unrelated = any(
        not sub[x][y] and not sub[y][x]
        for (t1, _), (t2, _) in itertools.combinations(app, 2)
        for x, y in zip(t1, t2)
    )
    if unrelated and exp[0] == "ambiguous" and got[0] == "method":
        return "C02:levels-not-partial-order:winner-instead-of-ambiguous"
    if unrelated and exp[0] == "method" and got[0] == "ambiguous":
        return "C02:levels-not-partial-order:ambiguous-instead-of-winner"
    if unrelated and exp[0] == "method" and got[0] == "method":
        return "C02:levels-not-partial-order:wrong-winner"
    return None


def exh_specs(n, npos, maxlen, shard, nshards):
    types = list(range(n + 1))
    kinds = [
        [list(ts), p] for ts in itertools.product(types, repeat=npos) for p in (0, 1)
    ]
    i = 0
    for h in H.all_dags(n):
        for ln in range(1, maxlen + 1):
            for seq in itertools.product(kinds, repeat=ln):
                if i % nshards == shard:
                    yield {"kind": "exh", "hier": h, "npos": npos, "methods": list(seq)}
                i += 1


# ----------------------------------------------------------------------------- random part


def case_strategy():
    from hypothesis import strategies as st

    @st.composite
    def _nontransitive(draw):
        """subclassing that is not transitive: K1 is an ABC below K0 that registers K2 as a virtual subclass, K3
        derives from K2 and K0 - so K2 < K1 < K0 while K2 and K0 are unrelated.  'Beats every other applicable
        method' then differs from 'is not beaten by any'."""
        h = {"classes": [{"bases": []}, {"bases": [0], "abc": True, "virt": [2]}, {"bases": []}, {"bases": [2, 0]},
                         {"bases": [3]}]}
        two = draw(st.booleans())
        anns = draw(st.permutations([["cls", "K0"], ["cls", "K1"], ["cls", "K2"]]))
        extra = draw(st.lists(st.sampled_from([["cls", "object"], ["cls", "K3"], ["cls", "K0"]]), max_size=2))
        methods = []
        for i, a in enumerate(list(anns) + extra):
            pos = [{"name": "a0", "ann": a}] + ([{"name": "a1", "ann": ["cls", draw(st.sampled_from(["object", "K0"]))]}] if two else [])
            methods.append({"id": i, "pos": pos, "kw": [], "prio": -1 if a == ["cls", "object"] else 0})
        vals = [["inst", n] for n in ("K3", "K4", "K2", "K1", "K0")]
        calls = [{"args": [v] + ([["inst", "K3"]] if two else []), "kw": {}}
                 for v in draw(st.lists(st.sampled_from(vals), min_size=2, max_size=5))]
        return {"kind": "rand", "hier": h, "methods": methods, "calls": calls,
                "host": draw(st.sampled_from(["func", "func", "attr"]))}

    @st.composite
    def _case(draw):
        if draw(st.integers(0, 9)) == 0:
            return draw(_nontransitive())
        h = draw(H.hierarchies(2, 8))
        names = H.class_names(h) * 3 + ["object", "object", "PA", "PB", "int", "str"]
        cls = st.sampled_from(names)
        npos = draw(st.integers(1, 3))
        kwpool = ["k0", "k1", "k2"]
        use_kw = draw(st.integers(0, 2)) == 0
        nm = draw(st.integers(1, 7))
        methods = []
        for i in range(nm):
            if methods and draw(st.integers(0, 6)) == 0:
                # repeated identical signature
                m = dict(draw(st.sampled_from(methods)))
                m["id"] = i
                methods.append(m)
                continue
            ar = npos if draw(st.integers(0, 4)) else draw(st.integers(1, 3))
            pos = [{"name": f"a{j}", "ann": ["cls", draw(cls)]} for j in range(ar)]
            kw = []
            if use_kw:
                for k in draw(st.permutations(kwpool)):  # declaration order differs between methods
                    if draw(st.integers(0, 2)) != 2:
                        kw.append({"name": k, "ann": ["cls", draw(cls)], "opt": draw(st.booleans())})
            methods.append(
                {"id": i, "pos": pos, "kw": kw, "prio": draw(st.sampled_from([0, 0, 0, 1, -1, 2]))}
            )
        env = H.build(h)
        knames = H.class_names(h)
        allinst = [["inst", n] for n in knames] + [["int", 3], ["str", "s"], ["inst", "object"]]

        def fitting(ann):
            c = env[ann[1]]
            out = [["inst", n] for n in knames if issubclass(env[n], c)]
            if issubclass(int, c):
                out.append(["int", 3])
            if issubclass(str, c):
                out.append(["str", "s"])
            return out or allinst

        calls = []
        for _ in range(draw(st.integers(1, 6))):
            if draw(st.integers(0, 5)):
                m = draw(st.sampled_from(methods))
                args = [draw(st.sampled_from(fitting(p["ann"]))) for p in m["pos"]]
                kws = {p["name"]: draw(st.sampled_from(fitting(p["ann"]))) for p in m["kw"]
                       if not p.get("opt") or draw(st.booleans())}
                if kws and draw(st.integers(0, 7)) == 0:
                    kws.pop(sorted(kws)[0])
            else:
                n = npos if draw(st.integers(0, 5)) else draw(st.integers(1, 3))
                args = [draw(st.sampled_from(allinst)) for _ in range(n)]
                kws = {}
                if use_kw:
                    for k in kwpool:
                        if draw(st.booleans()):
                            kws[k] = draw(st.sampled_from(allinst))
            calls.append({"args": args, "kw": kws})
        return {"kind": "rand", "hier": h, "methods": methods, "calls": calls,
                "host": draw(st.sampled_from(["func", "func", "attr"]))}

    return _case()


def run_rand_case(spec):
    res = R.CaseResult()
    env = H.build(spec["hier"])
    env["object"] = object
    prog = Program({"hier": spec["hier"], "methods": spec["methods"], "host": spec.get("host", "func")}, env=env)
    try:
        methods = spec["methods"]
        for c in spec["calls"]:
            args = [S.build_value(v, env) for v in c["args"]]
            kws = {k: S.build_value(v, env) for k, v in c["kw"].items()}
            exp = M.resolve(methods, args, kws, env)
            if exp[0] == "unspec":
                res.skipped.append("unspec:" + exp[1])
                continue
            out = prog.call(args, kws)
            trace = prog.H.trace()
            if out.kind == "ok":
                got = ("method", out.value.mid)
            elif out.kind == "rejected":
                got = ("nomethod",)
            else:
                got = (out.kind,)
            app, _ = M.applicable_set(methods, args, kws, env)
            if len(app) >= 2:
                res.nontrivial = True
                res.label("multi-applicable")
            if c["kw"]:
                res.label("kw-call")
            res.label("exp:" + exp[0])
            if got != exp:
                res.fail(
                    f"call args={c['args']} kw={c['kw']}: expected {exp}, got {got} ({out.detail[:160]})",
                    classify_rand(app, len(args), set(kws), env, exp, got),
                )
                continue
            if exp[0] == "method" and trace != [exp[1]]:
                res.fail(f"trace {trace} for expected {exp}", None)
            if exp[0] != "method" and trace:
                res.fail(f"a body ran ({trace}) although the call raised {got}", None)
            # resolve() names the same method (positional calls only)
            if not kws and prog.host == "func":
                ro = capture(prog.ov.resolve, *args)
                if ro.kind == "ok":
                    prog.H.start([])
                    r2 = capture(ro.value, *args)
                    got2 = ("method", r2.value.mid) if r2.kind == "ok" else ("resolve-handler-" + r2.kind,)
                else:
                    got2 = (ro.kind,)
                if got2 != exp:
                    res.fail(f"resolve() args={c['args']}: expected {exp}, got {got2}",
                             classify_rand(app, len(args), set(kws), env, exp, got2))
    finally:
        prog.close()
    return res


def classify_rand(app, n, kwnames, env, exp, got):
    unrelated = False
    for a, b in itertools.combinations(app, 2):
        pairs = [(M.ann_of(a["pos"][i]), M.ann_of(b["pos"][i])) for i in range(n)]
        ka = {p["name"]: p for p in a.get("kw") or []}
        kb = {p["name"]: p for p in b.get("kw") or []}
        pairs += [(M.ann_of(ka[k]), M.ann_of(kb[k])) for k in kwnames]
        if any(S.order(x, y, env) == S.NONE for x, y in pairs):
            unrelated = True
    if unrelated and exp[0] == "ambiguous" and got[0] == "method":
        return "C02:levels-not-partial-order:winner-instead-of-ambiguous"
    if unrelated and exp[0] == "method" and got[0] == "ambiguous":
        return "C02:levels-not-partial-order:ambiguous-instead-of-winner"
    if unrelated and exp[0] == "method" and got[0] == "method":
        return "C02:levels-not-partial-order:wrong-winner"
    return None


# ----------------------------------------------------------------------------- check object


class Check:
    id = "C02"
    level = "exploration"
    rule = (
        "exhaustive part: every class DAG on n classes (+object) x every ordered method sequence "
        "(1 position: <=3 methods, 2 positions: <=2 methods, type x priority{0,1}) x every tuple of "
        "argument classes, compared with an independent model of the rule; random part: Hypothesis "
        "hierarchies (<=8 classes, ABCs, protocols), <=7 methods, 1-3 positions, keyword-only typed "
        "parameters, priorities, repeated signatures, mixed arities. Non-trivial = some probed call has "
        ">=2 applicable methods; distinct by canonical spec hash."
    )
    assumptions = [
        "class-level subtyping ground truth is Python's issubclass on the generated classes",
        "error kinds are compared, never error texts",
    ]

    def tasks(self, tier, seed):
        n = 3 if tier == "quick" else 4
        sh = 16 if tier == "quick" else 48
        t = [{"kind": "exh1", "n": n, "shard": i, "nshards": sh} for i in range(sh)]
        t += [{"kind": "exh2", "n": n, "shard": i, "nshards": sh} for i in range(sh)]
        nr = 16
        per = 600 if tier == "quick" else 9000
        t += [{"kind": "rand", "seed": seed * 1000 + i, "n": per} for i in range(nr)]
        return t

    def run_task(self, task):
        st = R.Stats()
        sigs = R.open_signatures(self.id)
        if task["kind"] in ("exh1", "exh2"):
            npos, maxlen = (1, 3) if task["kind"] == "exh1" else (2, 2)
            R.run_enumerated(
                st, exh_specs(task["n"], npos, maxlen, task["shard"], task["nshards"]),
                run_exh_case, sigs,
            )
            st.extra["exhaustive_part_cases"] = st.evaluations
        else:
            R.run_given(st, case_strategy(), run_rand_case, task["seed"], task["n"], sigs)
        return st

    def run_case(self, spec):
        if spec.get("kind") == "exh":
            return run_exh_case(spec)
        return run_rand_case(spec)


CHECK = Check()

if __name__ == "__main__":
    sys.exit(R.main("checks.c02"))
