"""C18 - a failed build never leaves a half-built function in service.

Fault enumeration over generated method sets (plain-class annotations, bodies with recurse / call_next sites):
  natural faults   an invalid method (argument name at two positions, positional-vs-keyword clash, stored call_next,
                   unreadable source, *args) at every registration position, before first use and after;
                   user hooks (class_check predicate, __type_order__ hook, dependent condition) raising on their
                   n-th invocation;
  injected faults  a BaseException raised from a sys.settrace line hook at the k-th executed line of library /
                   generated code, for every k (thorough) or a Hypothesis-drawn k (quick), during (a) the first-use
                   build, (b) the rebuild after register, (c) a cache-miss resolution with a call_next chain.
Oracle: after the fault every probe call - through the dispatch function, the Ovld object AND f.next(...) called from
code that is not one of the methods (positional probes) - either reproduces the
outcome of a FRESH function over the complete set of registered methods or raises a configuration error; for
one-shot (transient) faults a configuration error is accepted only if the fresh function raises it too.  After the
offending method is unregistered all probes equal a fresh function over the valid set.
"""
import sys

from vlib import boot  # noqa: F401
from vlib import faults as F
from vlib import gen as G
from vlib import hier as H
from vlib import runner as R
from vlib import spec as S
from vlib.outcome import HarnessExc, capture
from vlib.prog import Program, install_source

import ovld

HIER = {"classes": [{"bases": []}, {"bases": [0]}, {"bases": []}, {"bases": [1, 2]}]}
KN = ["K0", "K1", "K2", "K3"]


def base_strategy():
    from hypothesis import strategies as st

    @st.composite
    def _base(draw):
        plain = st.sampled_from([["cls", n] for n in KN] * 2 + [["obj"], ["cls", "int"], ["cls", "list"]])
        ms = draw(G.method_sets(KN, plain, max_methods=4, max_pos=2, with_opt=False, with_kw=False, hosts=("func",),
                                allow_zero=False))
        methods = ms["methods"]
        if len(methods) < 2:
            methods.append({"id": len(methods), "prio": -1, "kw": [], "sites": [],
                            "pos": [dict(p, ann=["obj"]) for p in methods[0]["pos"]]})
            if methods[0]["pos"] and methods[0]["pos"][0].get("posonly"):
                for j, p in enumerate(methods[-1]["pos"]):
                    p["name"] = f"q{methods[-1]['id']}_{j}"
        corpus = [["inst", n] for n in KN] + [["int", 1], ["list", [["int", 1]]], ["str", "s"]]
        env = H.build(HIER)
        fit = G.fitting_fn(env, corpus)
        probes = draw(G.calls_for(methods, corpus, [], fitting=fit, n_calls=(3, 5)))
        # one probe is aimed at the LAST method (the one the 'rebuild' scenario registers after first use), so that a
        # table that ignores it is visible
        last = methods[-1]
        probes.insert(1, {"args": [draw(st.sampled_from(fit(p["ann"]) or corpus)) for p in last["pos"]], "kw": {}, "script": []})
        # the LAST probe (the cache-miss call of the 'miss' scenario) walks a call_next chain: its target delegates with
        # call_next in its own shape and a general fallback of that arity exists below it
        star = next((m for m in methods if any(s["fn"] == "call_next" and s["npos"] == len(m["pos"]) for s in m["sites"])),
                    methods[0])
        if not any(s["fn"] == "call_next" and s["npos"] == len(star["pos"]) for s in star["sites"]):
            star["sites"] = [{"fn": "call_next", "npos": len(star["pos"]), "kws": []}] + list(star["sites"])[:1]
        k = next(i for i, s in enumerate(star["sites"]) if s["fn"] == "call_next" and s["npos"] == len(star["pos"]))
        if not any(len(m["pos"]) == len(star["pos"]) and m is not star and all(p["ann"] == ["obj"] for p in m["pos"])
                   for m in methods):
            strict = bool(star["pos"]) and star["pos"][0].get("posonly")
            nid = len(methods)
            fb = {"id": nid, "prio": -1, "kw": [], "sites": [],
                  "pos": [dict(p, ann=["obj"], name=(f"q{nid}_{j}" if strict else p["name"])) for j, p in enumerate(star["pos"])]}
            methods.append(fb)
        probes.append({"args": [draw(st.sampled_from(fit(p["ann"]) or corpus)) for p in star["pos"]], "kw": {},
                       "script": [["site", k, "same"], ["site", 0, "same"]]})
        if draw(st.booleans()):
            # a high-priority catch-all "gate" in front of everything: it is a candidate for EVERY type tuple of its
            # arity, so a delegation from it reaches other tuples through a cross-type continuation lookup
            strict = bool(star["pos"]) and star["pos"][0].get("posonly")
            gid = len(methods)
            gate = {"id": gid, "prio": 5, "kw": [], "sites": [{"fn": "call_next", "npos": len(star["pos"]), "kws": []}],
                    "pos": [dict(p, ann=["obj"], name=(f"q{gid}_{j}" if strict else p["name"])) for j, p in enumerate(star["pos"])]}
            methods.insert(0, gate)  # registered first, so that the 'rebuild' scenario still adds an ordinary method last
            for pr in probes:
                if len(pr["args"]) == len(gate["pos"]):
                    pr["script"] = [["site", 0, "same"]] + list(pr.get("script") or [])
        return {"methods": methods, "probes": probes}

    return _base()


def case_strategy(kinds=("inject", "inject", "inject", "natural", "hook")):
    from hypothesis import strategies as st

    @st.composite
    def _case(draw):
        base = draw(base_strategy())
        kind = draw(st.sampled_from(list(kinds)))
        spec = dict(base, kind=kind)
        n = len(base["methods"])
        if kind == "inject":
            spec["scenario"] = draw(st.sampled_from(["first", "rebuild", "miss", "replace"]))
            spec["frac"] = draw(st.floats(0, 1))  # fault point as a fraction of the operation's executed lines
            spec["entry"] = draw(st.sampled_from(["dispatch", "ovld"]))
        elif kind == "natural":
            spec["bad"] = draw(st.sampled_from(["name-position", "pos-vs-kw", "stored-call_next", "unreadable", "varargs"]))
            spec["at"] = draw(st.integers(0, n))
            spec["after_use"] = draw(st.booleans())
            # while the invalid method is there, a VALID method is taken out and put back (the number of methods
            # returns to what it was when the function last built)
            spec["swap"] = draw(st.integers(0, 2)) == 0
        else:
            spec["hook"] = draw(st.sampled_from(["class_check", "type_order", "condition"]))
            spec["nth"] = draw(st.integers(1, 12))
        return spec

    return _case()


# ----------------------------------------------------------------------------- helpers


def observe(prog, probe, env, via):
    args = [S.build_value(v, env) for v in probe["args"]]
    kws = {k: S.build_value(v, env) for k, v in probe["kw"].items()}
    out = prog.call(args, kws, script=probe.get("script"), via=via)
    val = out.value.mid if (out.kind == "ok" and hasattr(out.value, "mid")) else None
    kind = "nomethod" if out.kind == "rejected" else out.kind
    return (kind, val, tuple(prog.H.trace())), out


def fresh_expect(pspec, env, ids, probes, extra_fns=(), extra_build=None):
    """outcome of every probe, each on its own brand-new function over the given registrations"""
    out = []
    for p in probes:
        f = Program(pspec, env=env, order=ids, build=False)
        try:
            if extra_build is not None:
                extra_build(f)
            else:
                for mid in ids:
                    f.register(mid)
            if f.f is None:
                f._bind()
            out.append(observe(f, p, env, None)[0])
        finally:
            f.close()
    return out


def registered_ids(prog):
    """ids of the generated methods currently registered, in registration order (from the Ovld's own table)"""
    present = {id(fn) for fn in prog.ov.defns.values()}
    # registration order (the Ovld's own dict keeps a replaced signature at its original position)
    return [m["id"] for m in prog.methods if id(prog.fns[m["id"]]) in present]


def via_of(prog, via_name, p):
    """the three ways a later call can enter: the dispatch function, the Ovld object, and f.next(...) from code that
    is not one of the methods (the library then falls back to a fresh lookup) - positional arguments only"""
    if via_name == "ovld":
        return prog.ov
    if via_name == "next":
        if p["kw"]:
            return False
        return getattr(prog.f, "next", None) or False
    return None


VIAS = ("dispatch", "ovld", "next")


def check_probes(res, prog, env, probes, expected, label, transient, spec, vias=VIAS):
    for i, via_name in [(i, v) for i in range(len(probes)) for v in vias]:
        p = probes[i]
        if True:
            via = via_of(prog, via_name, p)
            if via is False:
                continue
            got, out = observe(prog, p, env, via)
            exp = expected[i]
            ok = got == exp or (got[0] == "config" and (not transient or exp[0] == "config"))
            if not ok:
                res.fail(
                    f"{label}: probe {p['args']} script={p.get('script')} via {via_name} gives {got} "
                    f"({out.detail[:160]}) but a fresh function over the registered methods gives {exp}",
                    classify(spec, got, exp),
                )
                return False
    return True


def classify(spec, got, exp):
    return None


# ----------------------------------------------------------------------------- injected faults


def scenario_op(spec, prog, env):
    """-> (setup: callable done untraced, op: callable run under the injector)"""
    probes = spec["probes"]
    via = (lambda: prog.ov) if spec.get("entry") == "ovld" else (lambda: None)
    first = probes[0]

    def call(p):
        args = [S.build_value(v, env) for v in p["args"]]
        kws = {k: S.build_value(v, env) for k, v in p["kw"].items()}
        prog.H.start(p.get("script"))
        f = via() or prog.f
        return f(*args, **kws)

    sc = spec["scenario"]
    ids = [m["id"] for m in spec["methods"]]
    if sc == "replace":
        dup = spec["_dup"]
        ids = [i for i in ids if i != dup]

        def setup():
            for mid in ids:
                prog.register(mid)
            capture(call, first)
        return setup, lambda: prog.register(dup)
    if sc == "first":
        def setup():
            for mid in ids:
                prog.register(mid)
        return setup, lambda: call(first)
    if sc == "rebuild":
        def setup():
            for mid in ids[:-1]:
                prog.register(mid)
            capture(call, first)
        return setup, lambda: prog.register(ids[-1])

    def setup():
        for mid in ids:
            prog.register(mid)
        capture(call, first)
    later = probes[-1]
    return setup, lambda: call(later)


def augment(spec):
    """scenario 'replace': the operation registers a NEW function with the signature of an existing method (the one
    whose call_next chain the probes walk) - a replacement, which the library performs as several writes"""
    if spec.get("scenario") != "replace" or spec.get("_augmented"):
        return spec
    methods = spec["methods"]
    src = next((m for m in methods if any(s_["fn"] == "call_next" and s_["npos"] == len(m["pos"]) for s_ in m["sites"])
                and m.get("prio", 0) < 5), methods[-1])
    nid = max(m["id"] for m in methods) + 1
    dup = dict(src, id=nid, pos=[dict(p, name=(f"q{nid}_{j}" if p.get("posonly") else p["name"])) for j, p in enumerate(src["pos"])])
    return dict(spec, methods=methods + [dup], _augmented=True, _dup=nid)


def run_inject(spec, k=None):
    res = R.CaseResult()
    env = H.build(HIER)
    spec = augment(spec)
    pspec = {"hier": HIER, "methods": spec["methods"], "host": "func"}
    # pass 1: count the executed lines of the operation
    prog = Program(pspec, env=env, build=False)
    try:
        setup, op = scenario_op(spec, prog, env)
        setup()
        rec = F.Injector(None)
        with rec:
            capture(op)
        total = rec.count
    finally:
        prog.close()
    if total == 0:
        res.skipped.append("operation executed no library line")
        return res
    if k is None:
        k = min(total, max(1, int(spec["frac"] * total) + 1))
    prog = Program(pspec, env=env, build=False)
    try:
        setup, op = scenario_op(spec, prog, env)
        setup()
        inj = F.Injector(k)
        fired = False
        with inj:
            try:
                op()
            except F.Injected:
                fired = True
            except Exception:  # noqa: BLE001  (the operation may legitimately fail, e.g. 'No method')
                pass
        if not fired:
            res.skipped.append("fault point not reached")
            return res
        where = inj.fired
        res.label("fired-in:" + where[2], "scenario:" + spec["scenario"])
        # the fault struck strictly inside the operation (not at its very first / last lines), i.e. after the
        # operation may have started to write shared state and before it finished
        res.nontrivial = 3 <= k <= total - 2
        res.key = f"{spec['scenario']}:{where[0]}:{where[1]}"
        ids = registered_ids(prog)
        if not ids:
            res.skipped.append("no method registered at the fault point")
            return res
        probes = list(spec["probes"])
        if spec["scenario"] == "miss":
            # first of all, reach the interrupted type tuple through a delegation from a call on OTHER argument types
            # (a plain call on that tuple would simply redo, and thereby repair, the interrupted resolution)
            later, first = spec["probes"][-1], spec["probes"][0]
            # walk the delegation chain of the interrupted call itself (its first rank may already be cached while the
            # continuation entries are not)
            for k in (0, 1):
                probes.insert(0, {"args": later["args"], "kw": later["kw"],
                                  "script": [["site", k, "same"], ["site", k, "same"], ["site", k, "same"]]})
            # ... but FIRST reach the interrupted tuple through a delegation from a call on other types
            for k in (0, 1):
                probes.insert(0, {"args": first["args"], "kw": first["kw"], "script": [["site", k, later["args"], {}]]})
        expected = fresh_expect(pspec, env, ids, probes)
        what = (f"a fault injected at {where[0]}:{where[1]} ({where[2]}) during '{spec['scenario']}' "
                f"(line event {k}/{total})")
        # phase A: through the dispatch function only (an entry through the Ovld object or f.next re-checks the
        # build state and may repair what the dispatch function would have shown)
        if not check_probes(res, prog, env, probes, expected, "after " + what, True, spec, vias=("dispatch",)):
            return res
        late_or_sampled = k >= 0.75 * total or k <= 0.1 * total or k % 3 == 0
        if len(ids) >= 2 and late_or_sampled:
            # phase B: the function must also keep FOLLOWING later changes of its method set: unregister the most
            # recently registered method, then register it again
            res.label("follow-up:unregister+register")
            victim = ids[-1]
            r = capture(prog.ov.unregister, prog.fns[victim])
            if r.kind != "ok":
                res.fail(f"after {what}: unregistering method {victim} failed: {r.brief()}", None)
                return res
            plain = list(spec["probes"])
            if not check_probes(res, prog, env, plain, fresh_expect(pspec, env, ids[:-1], plain),
                                f"after {what} and then unregistering method {victim}", True, spec, vias=("dispatch",)):
                return res
            r = capture(prog.register, victim)
            if r.kind != "ok":
                res.fail(f"after {what}: registering method {victim} again failed: {r.brief()}", None)
                return res
            if not check_probes(res, prog, env, plain, fresh_expect(pspec, env, ids, plain),
                                f"after {what}, unregistering and re-registering method {victim}", True, spec,
                                vias=("dispatch",)):
                return res
        # phase C: every entry
        check_probes(res, prog, env, probes, expected, "after " + what, True, spec, vias=("ovld", "next", "dispatch"))
    finally:
        prog.close()
    return res


# ----------------------------------------------------------------------------- natural faults

BAD_SRC = {
    "name-position": "def bad(a1: KB, a0: KB, /):\n    return 'bad'\n",
    "pos-vs-kw": "def bad(x: KB, *, a0: KB):\n    return 'bad'\n",
    "stored-call_next": "def bad(a0: KB):\n    nxt = call_next\n    return nxt(a0)\n",
    "unreadable": "def bad(a0: KB):\n    return recurse(a0)\n",
    "varargs": "def bad(*args):\n    return 'bad'\n",
}


def make_bad(kind, methods):
    src = BAD_SRC[kind]
    strict = bool(methods[0]["pos"]) and methods[0]["pos"][0].get("posonly")
    if kind == "name-position":
        if strict:
            # names only clash when they are not positional-only: reuse one keyword-capable name at two positions
            src = "def bad(zz: KB, a0: KB):\n    return 'bad'\n"
        else:
            src = "def bad(a1: KB, a0: KB):\n    return 'bad'\n"
    KB = type("KB", (), {})
    glb = {"KB": KB, "call_next": ovld.call_next, "recurse": ovld.recurse, "__name__": "verifbad"}
    if kind == "unreadable":
        exec(compile(src, "<no-such-source-file>", "exec"), glb)
    else:
        fname = install_source(src, tag="verifbad")
        exec(compile(src, fname, "exec"), glb)
    return glb["bad"]


def bad_is_detectable(kind, methods):
    names0 = {p["name"] for m in methods for p in m["pos"] if not p.get("posonly")}
    if kind == "name-position":
        return True if "a0" in names0 or "a1" in names0 else False
    if kind == "pos-vs-kw":
        return "a0" in names0
    return True


def run_natural(spec):
    res = R.CaseResult()
    env = H.build(HIER)
    methods = spec["methods"]
    pspec = {"hier": HIER, "methods": methods, "host": "func"}
    kind = spec["bad"]
    if not bad_is_detectable(kind, methods):
        res.skipped.append("invalid-method kind not applicable to this naming regime")
        return res
    ids = [m["id"] for m in methods]
    at = spec["at"] % (len(ids) + 1)
    prog = Program(pspec, env=env, build=False)
    bad = make_bad(kind, methods)
    try:
        reg_error = None
        handles = []
        if spec["after_use"]:
            for mid in ids:
                prog.register(mid)
            observe(prog, spec["probes"][0], env, None)
            # handles to methods of the working build, kept across the failing change (f.resolve(...); the same
            # situation as a generator or callback that is still running)
            handles = []
            for p in spec["probes"]:
                if p["kw"] or not p.get("script"):
                    continue
                hargs = [S.build_value(v, env) for v in p["args"]]
                hr = capture(prog.ov.resolve, *hargs)
                if hr.kind == "ok" and callable(hr.value):
                    handles.append((p, hargs, hr.value))
            r = capture(prog.ov.register, bad)
            reg_error = r
        else:
            for j, mid in enumerate(ids):
                if j == at:
                    r = capture(prog.ov.register, bad)
                    reg_error = r if r.kind != "ok" else reg_error
                prog.register(mid)
            if at == len(ids):
                r = capture(prog.ov.register, bad)
                reg_error = r if r.kind != "ok" else reg_error
        if reg_error is not None and reg_error.kind not in ("ok", "config"):
            res.fail(f"registering the invalid method ({kind}) raised {reg_error.brief()}", None)
            return res
        still = any(fn is bad for fn in prog.ov.defns.values())
        res.label("bad:" + kind, "after-use" if spec["after_use"] else f"before-use@{at}",
                  "bad-method-registered" if still else "bad-method-rejected-at-registration")
        res.nontrivial = True
        res.key = f"{kind}:{'after' if spec['after_use'] else 'before'}:{at}:{R.h64(methods)}"
        valid_expected = fresh_expect(pspec, env, ids, spec["probes"])
        if still and spec["after_use"]:
            # a method of the earlier build that delegates now must not dispatch over the half-filled (or the
            # previous) table either: configuration error, or it ran alone without delegating
            for p, hargs, h in handles:
                prog.H.start(p.get("script"))
                out = capture(h, *hargs)
                trace = prog.H.trace()
                res.label("handle-of-earlier-build-called")
                if out.kind != "config" and (len(trace) >= 2 or out.kind in ("nomethod", "ambiguous", "rejected", "other", "badcall")):
                    res.fail(
                        f"invalid method ({kind}) registered after first use: a method obtained with f.resolve({p['args']}) "
                        f"before the change, called afterwards with script={p.get('script')}, delegated and got "
                        f"{out.brief()} trace={trace} instead of a configuration error - recurse / call_next of the "
                        f"earlier build dispatch over a table that does not hold the registered methods",
                        "C18:earlier-build-dispatches-over-partial-table",
                    )
                    return res
        if still:
            # the complete set cannot be built: every probe must raise a configuration error, again and again
            for rnd in range(2):
                for p in spec["probes"]:
                    for via_name in VIAS:
                        via = via_of(prog, via_name, p)
                        if via is False:
                            continue
                        got, out = observe(prog, p, env, via)
                        if got[0] != "config":
                            res.fail(
                                f"invalid method ({kind}) registered {'after first use' if spec['after_use'] else 'at position %d' % at}: "
                                f"probe {p['args']} via {via_name} (round {rnd}) gives {got} ({out.detail[:160]}) instead of a "
                                f"configuration error - the function dispatches over a partially built table",
                                "C18:partial-table-in-service",
                            )
                            return res
            if spec.get("swap") and len(ids) >= 2:
                v = ids[-1]
                rest = [m for m in methods if m["id"] != v]
                r = capture(prog.ov.unregister, prog.fns[v])
                if r.kind not in ("ok", "config"):
                    res.fail(f"unregistering a valid method while the invalid one ({kind}) is registered: {r.brief()}", None)
                    return res
                res.label("valid-method-swapped-out-under-invalid-one")
                if bad_is_detectable(kind, rest):
                    # (the invalid method is invalid on its own, or still clashes with the remaining ones)
                    for p in spec["probes"]:
                        got, out = observe(prog, p, env, None)
                        if got[0] != "config":
                            res.fail(
                                f"invalid method ({kind}) registered, then the valid method m{v} unregistered: probe "
                                f"{p['args']} gives {got} ({out.detail[:160]}) instead of a configuration error - the set "
                                f"that is registered now was never built", "C18:partial-table-in-service")
                            return res
                r = capture(prog.register, v)
                if r.kind not in ("ok", "config"):
                    res.fail(f"re-registering m{v} while the invalid method ({kind}) is registered: {r.brief()}", None)
                    return res
                ids = [i for i in ids if i != v] + [v]
                valid_expected = fresh_expect(pspec, env, ids, spec["probes"])
            r = capture(prog.ov.unregister, bad)
            if r.kind != "ok":
                res.fail(f"unregistering the invalid method failed: {r.brief()}", None)
                return res
        check_probes(res, prog, env, spec["probes"], valid_expected,
                     f"after the invalid method ({kind}) was {'unregistered' if still else 'refused'}", False, spec)
    finally:
        prog.close()
    return res


# ----------------------------------------------------------------------------- user hooks raising on the n-th invocation


def run_hook(spec):
    res = R.CaseResult()
    env = H.build(HIER)
    state = {"n": 0, "armed": True}

    def tick():
        state["n"] += 1
        if state["armed"] and state["n"] == spec["nth"]:
            state["armed"] = False
            raise HarnessExc("hook fault")

    from ovld import Dependent, class_check
    from vlib.api import typeorder

    K = env

    def under_k0(cls):
        tick()
        return isinstance(cls, type) and issubclass(cls, K["K0"])

    class ProxyMC(type):
        def __type_order__(cls, other):
            tick()
            return NotImplemented if other is cls else typeorder(K["K2"], other)

        def __is_supertype__(cls, other):
            tick()
            return isinstance(other, type) and issubclass(other, K["K2"])

    def cond(v):
        tick()
        return True

    custom = {
        "class_check": class_check(under_k0),
        "type_order": ProxyMC("ProxyK2", (), {}),
        "condition": Dependent[K["K1"], cond],
    }
    env["__custom__"] = {"HOOK": custom[spec["hook"]]}
    methods = [dict(m) for m in spec["methods"]]
    arity = len(methods[0]["pos"])
    strict = bool(methods[0]["pos"]) and methods[0]["pos"][0].get("posonly")
    hid = max(m["id"] for m in methods) + 1
    hm = {"id": hid, "prio": 0, "kw": [], "sites": [],
          "pos": [{"name": (f"q{hid}_{j}" if strict else f"a{j}"), "ann": ["custom", "HOOK"] if j == 0 else ["obj"]}
                  for j in range(max(arity, 1))]}
    if strict:
        for p in hm["pos"]:
            p["posonly"] = True
    methods.append(hm)
    pspec = {"hier": HIER, "methods": methods, "host": "func"}
    ids = [m["id"] for m in methods]
    # expectations are computed with the hook disarmed
    state["armed"] = False
    expected = fresh_expect(pspec, env, ids, spec["probes"])
    state.update(n=0, armed=True)
    prog = Program(pspec, env=env)
    try:
        hit = False
        for p in spec["probes"]:
            got, out = observe(prog, p, env, None)
            if out.kind == "user" and not state["armed"]:
                hit = True
                break
            if out.kind in ("other", "badcall"):
                res.fail(f"hook fault scenario: probe {p['args']} gives {got} ({out.detail[:200]})", None)
                return res
        res.label("hook:" + spec["hook"], "hook-fired" if hit else "hook-not-reached")
        if not hit:
            res.skipped.append("hook fault not reached")
            return res
        res.nontrivial = True
        res.key = f"hook:{spec['hook']}:{spec['nth']}:{R.h64(spec['methods'])}"
        state["armed"] = False
        check_probes(res, prog, env, spec["probes"], expected,
                     f"after the {spec['hook']} hook raised on its invocation #{spec['nth']}", True, spec)
    finally:
        prog.close()
    return res


def run_case(spec):
    k = spec.get("kind")
    if k == "inject":
        return run_inject(spec, spec.get("k"))
    if k == "natural":
        return run_natural(spec)
    return run_hook(spec)


class Check:
    id = "C18"
    level = "fault_enumeration"
    rule = (
        "Generated method sets (2-5 methods, recurse / call_next bodies) x fault: (i) injected BaseException at the k-th "
        "executed line of library / generated code during first-use build, rebuild after register, or a cache-miss "
        "resolution with a call_next chain - quick: Hypothesis-drawn k, thorough: EVERY k for 8 method sets x 3 scenarios "
        "x 2 entry points; (ii) five kinds of invalid method at every registration position, before and after first use, 1 in 3 with a "
        "valid method taken out and put back while the invalid one is registered; "
        "(iii) class_check / __type_order__ / condition hooks raising on their n-th invocation. Afterwards every probe "
        "through the dispatch function, the Ovld object and f.next(...) from non-method code must equal a fresh function over the registered methods, or be a configuration error. "
        "Non-trivial = the fault struck inside the build / resolution code (or an invalid method / hook fault was "
        "actually hit); distinct by (scenario, file:line) or (fault kind, position, method set)."
    )
    assumptions = [
        "faults strike at line boundaries of Python code (not inside C calls such as compile/exec, no process death)",
        "one fault per run; the injected exception is a BaseException (not swallowed by `except Exception`)",
    ]

    def tasks(self, tier, seed):
        if tier == "quick":
            t = [{"kind": "rand", "seed": seed * 1000 + i, "n": 60} for i in range(20)]
            t += [{"kind": "enum", "seed": seed * 1000 + 700 + i, "sets": 1, "stride": 9, "offset": i} for i in range(2)]
            # the multi-step writes of a resolution sit at the end of the operation: enumerate that part densely
            t += [{"kind": "enum", "seed": seed * 1000 + 800 + i, "sets": 1, "stride": 1, "offset": 0, "tail": 0.22,
                   "shard": [j, 4]} for i in range(2) for j in range(4)]
            # ... and the change of the method set itself sits at the very start of a re-registration
            t += [{"kind": "enum", "seed": seed * 1000 + 850 + i, "sets": 2, "stride": 1, "offset": 0, "head": 160,
                   "scenarios": ["rebuild", "replace"], "shard": [j, 3]} for i in range(2) for j in range(3)]
            return t
        t = [{"kind": "rand", "seed": seed * 1000 + i, "n": 3000} for i in range(8)]
        t += [{"kind": "enum", "seed": seed * 1000 + 700 + i, "sets": 1, "stride": 1, "offset": 0} for i in range(8)]
        return t

    def run_task(self, task):
        st = R.Stats()
        sigs = R.open_signatures(self.id)
        if task["kind"] == "rand":
            R.run_given(st, case_strategy(), run_case, task["seed"], task["n"], sigs)
            return st
        # exhaustive enumeration of every line point for `sets` generated method sets
        from hypothesis import HealthCheck, Phase, given, seed as hseed, settings

        bases = []

        @hseed(task["seed"])
        @settings(max_examples=task["sets"], database=None, deadline=None, phases=[Phase.generate],
                  suppress_health_check=list(HealthCheck))
        @given(base_strategy())
        def collect(b):
            bases.append(b)

        collect()
        specs = []
        for b in bases[: task["sets"]]:
            for sc in task.get("scenarios") or ("first", "rebuild", "miss", "replace"):
                for entry in ("dispatch", "ovld"):
                    probe = dict(b, kind="inject", scenario=sc, entry=entry, frac=0.0)
                    total = count_lines(probe)
                    start, stop = 1 + task["offset"], total
                    if task.get("tail"):
                        start = max(1, int(total * (1 - task["tail"])))
                    if task.get("head"):
                        stop = min(total, task["head"])
                    for k in range(start, stop + 1, task["stride"]):
                        specs.append(dict(probe, k=k))
        if task.get("shard"):
            j, n = task["shard"]
            specs = specs[j::n]
        R.run_enumerated(st, specs, run_case, sigs)
        st.extra["enumerated_line_points"] = len(specs)
        return st

    def run_case(self, spec):
        return run_case(spec)


def count_lines(spec):
    env = H.build(HIER)
    spec = augment(spec)
    prog = Program({"hier": HIER, "methods": spec["methods"], "host": "func"}, env=env, build=False)
    try:
        setup, op = scenario_op(spec, prog, env)
        setup()
        rec = F.Injector(None)
        with rec:
            capture(op)
        return rec.count
    finally:
        prog.close()


CHECK = Check()

if __name__ == "__main__":
    sys.exit(R.main("checks.c18"))
