"""C19 - concurrent calls behave like sequential calls.

The harness owns the schedule (vlib.sched): worker threads run under sys.settrace, every executed line of library
or generated code is a yield point of a cooperative scheduler, and the schedule (where to pre-empt) is generated
data.  Scenarios over generated, fully defined functions:
   first-same / first-diff   racing the very first calls (which trigger the lazy build), equal / different types
   miss-same / miss-diff     racing cache misses on an already built function
   chain                     racing call_next chains
   dependent                 racing first calls that generate a value-dependent dispatcher
   method                    racing first calls through an OvldBase instance attribute
   miss-shape / first-shape  racing cache misses / first calls of different call shapes (one / two positionals) on
                             a function with optional parameters (its entry point needs defaults)
Schedules: ALL single-pre-emption schedules of a scenario (exhaustive for that scenario; strided in the quick tier),
two-pre-emption schedules (first thread pre-empted at one of its first 16 / 80 yield points x the second one anywhere)
on the racing first calls,
Hypothesis-drawn schedules with <=3 pre-emptions for two threads and sampled ones for three; plus (thorough only)
free-running OS threads behind a barrier with a tiny switch interval (auxiliary, best-effort reproducible).
Oracle: every thread's outcome (kind, winner, trace of bodies) equals the same call made alone on a fresh function;
afterwards a probe set on the raced function equals the fresh function's.
"""
import sys
import threading

from vlib import boot  # noqa: F401
from vlib import gen as G
from vlib import hier as H
from vlib import runner as R
from vlib import sched as SC
from vlib import spec as S
from vlib.outcome import capture
from vlib.prog import Program

HIER = {"classes": [{"bases": []}, {"bases": [0]}, {"bases": []}, {"bases": [1, 2]}]}
KN = ["K0", "K1", "K2", "K3"]
SCENARIOS = ["first-same", "first-diff", "first-shape", "miss-same", "miss-diff", "miss-shape", "chain", "chain-cross",
             "dependent", "method"]
PAIR_SCENARIOS = ["first-same", "first-diff"]  # two pre-emptions: (early in one thread) x (anywhere in the other)


def M(i, anns, prio=0, sites=()):
    return {"id": i, "prio": prio, "kw": [], "sites": list(sites),
            "pos": [{"name": f"a{j}", "ann": a} for j, a in enumerate(anns)]}


CN = {"fn": "call_next", "npos": 1, "kws": []}
REC = {"fn": "recurse", "npos": 1, "kws": []}


def scenario(name, variant=0):
    """-> dict(methods, host, warm: [calls], racers: [calls], probes: [calls])"""
    k = lambda n: {"args": [["inst", n]], "kw": {}, "script": []}  # noqa: E731
    base = [M(0, [["cls", "K0"]], sites=[CN]), M(1, [["cls", "K1"]], sites=[CN]), M(2, [["cls", "K2"]], sites=[REC]),
            M(3, [["obj"]], prio=-1), M(4, [["cls", "K1"]], prio=1, sites=[CN])]
    probes = [k("K0"), k("K1"), k("K2"), k("K3"), {"args": [["int", 1]], "kw": {}, "script": []},
              {"args": [["inst", "K1"]], "kw": {}, "script": [["site", 0, "same"], ["site", 0, "same"]]}]
    if name == "first-same":
        return dict(methods=base, host="func", warm=[], racers=[k("K1"), k("K1")], probes=probes)
    if name == "first-diff":
        return dict(methods=base, host="func", warm=[], racers=[k("K1"), k("K2")], probes=probes)
    if name == "miss-same":
        return dict(methods=base, host="func", warm=[k("K0")], racers=[k("K3"), k("K3")], probes=probes)
    if name == "miss-diff":
        return dict(methods=base, host="func", warm=[k("K0")], racers=[k("K3"), k("K1")], probes=probes)
    if name == "chain":
        ch = {"args": [["inst", "K1"]], "kw": {}, "script": [["site", 0, "same"], ["site", 0, "same"], ["site", 0, "same"]]}
        ch2 = {"args": [["inst", "K3"]], "kw": {}, "script": [["site", 0, "same"], ["site", 0, "same"]]}
        return dict(methods=base, host="func", warm=[k("K0")] if variant else [], racers=[ch, ch2], probes=probes)
    if name == "chain-cross":
        # a method dispatched on one type delegates with call_next to ANOTHER type while a second thread is in the
        # middle of the first resolution of that type
        cross = {"args": [["inst", "K1"]], "kw": {}, "script": [["site", 0, [["inst", "K3"]], {}], ["site", 0, "same"]]}
        plain = {"args": [["inst", "K3"]], "kw": {}, "script": [["site", 0, "same"]]}
        return dict(methods=base, host="func", warm=[k("K0")] if variant else [k("K1")], racers=[cross, plain], probes=probes)
    if name == "dependent":
        ms = [M(0, [["dep", ["cls", "int"], "pos"]]), M(1, [["lit", [0]]]), M(2, [["cls", "int"]], sites=[]),
              M(3, [["lit", [1, 2]]]), M(4, [["obj"]], prio=-1)]
        iv = lambda v: {"args": [["int", v]], "kw": {}, "script": []}  # noqa: E731
        return dict(methods=ms, host="func", warm=[], racers=[iv(5), iv(0)],
                    probes=[iv(5), iv(0), iv(1), iv(-3), {"args": [["str", "s"]], "kw": {}, "script": []}])
    if name == "method":
        return dict(methods=base, host="mc", warm=[], racers=[k("K1"), k("K3")], probes=probes)
    if name in ("miss-shape", "first-shape"):
        # racing cache misses of DIFFERENT call shapes (one vs two positionals) over methods whose declared types
        # cross at the optional position: f(K1, obj=..), f(obj, K1=..), f(K1, K1)
        def P(name, ann, opt=False):
            return {"name": name, "ann": ann, "opt": opt}
        ms = [{"id": 0, "prio": 0, "kw": [], "sites": [], "pos": [P("a0", ["cls", "K1"]), P("a1", ["obj"], True)]},
              {"id": 1, "prio": 0, "kw": [], "sites": [], "pos": [P("a0", ["obj"]), P("a1", ["cls", "K1"], True)]},
              {"id": 2, "prio": 0, "kw": [], "sites": [], "pos": [P("a0", ["cls", "K1"]), P("a1", ["cls", "K1"])]}]
        one = k("K1")
        two = {"args": [["inst", "K1"], ["inst", "K1"]], "kw": {}, "script": []}
        return dict(methods=ms, host="func", warm=[k("K0")] if name == "miss-shape" else [],
                    racers=[one, two] if not variant else [two, one],
                    probes=[one, two, k("K0"), {"args": [["inst", "K0"], ["inst", "K1"]], "kw": {}, "script": []}])
    raise ValueError(name)


def observe(prog, call, env):
    args = [S.build_value(v, env) for v in call["args"]]
    kws = {kk: S.build_value(v, env) for kk, v in call["kw"].items()}
    out = prog.call(args, kws, script=call.get("script"))
    val = out.value.mid if (out.kind == "ok" and hasattr(out.value, "mid")) else None
    kind = "nomethod" if out.kind == "rejected" else out.kind
    return (kind, val, tuple(prog.H.trace())), out


def find_locks(prog):
    """locks on the objects under test (none on the pinned tree; a repair may add some)"""
    out = []
    lock_types = (type(threading.Lock()), type(threading.RLock()))
    objs = [prog.ov] + ([prog.ov.map] if hasattr(prog.ov, "map") else [])
    import ovld.core as core

    for holder in objs + [core, type(prog.ov)]:
        for name, val in list(vars(holder).items()) if hasattr(holder, "__dict__") else []:
            if isinstance(val, lock_types):
                out.append((holder, name))
    return out


def build(sc, env):
    # every lock the library creates for these objects is a cooperative one (a blocked acquirer yields to the
    # harness' scheduler instead of sleeping in C), wherever the library chooses to store it
    old = threading.Lock, threading.RLock
    threading.Lock = threading.RLock = SC.CoopLock
    try:
        prog = Program({"hier": HIER, "methods": sc["methods"], "host": sc["host"]}, env=env)
    finally:
        threading.Lock, threading.RLock = old
    for c in sc["warm"]:
        observe(prog, c, env)
    return prog


def sequential(sc, env, calls):
    """each call alone, on its own fresh (warmed) function"""
    out = []
    for c in calls:
        p = build(sc, env)
        try:
            out.append(observe(p, c, env)[0])
        finally:
            p.close()
    return out


def run_schedule(sc, env, racers, schedule):
    prog = build(sc, env)
    s = SC.Scheduler(schedule)
    SC.CURRENT[0] = s
    replaced = []
    results = {}

    def mk(i, c):
        def work():
            results[i] = observe(prog, c, env)
            return results[i][0]

        return work

    for i, c in enumerate(racers):
        s.add(mk(i, c))
    # a lock the library creates lazily, during the racing calls themselves, is a cooperative one as well
    old = threading.Lock, threading.RLock
    threading.Lock = threading.RLock = SC.CoopLock
    try:
        raw = s.run()
    finally:
        threading.Lock, threading.RLock = old
        SC.CURRENT[0] = None
    return prog, s, raw, results


def count_steps(sc, env, racers):
    """yield points of worker 0 when it runs alone first"""
    prog, s, raw, results = run_schedule(sc, env, racers, [])
    prog.close()
    return sum(1 for t in s.trace_log if t[0] == 0), len(s.trace_log)


_EXPECT = {}


def run_case(spec):
    """spec: {"scenario": name, "variant": 0|1, "swap": bool, "threads": 2|3, "schedule": [ints]}"""
    res = R.CaseResult()
    env = H.build(HIER)
    sc = scenario(spec["scenario"], spec.get("variant", 0))
    racers = list(sc["racers"])
    if spec.get("threads", 2) == 3:
        racers.append(sc["probes"][spec.get("third", 0) % len(sc["probes"])])
    if spec.get("swap"):
        racers = racers[::-1]
    ck = (spec["scenario"], spec.get("variant", 0), bool(spec.get("swap")), spec.get("threads", 2), spec.get("third", 0))
    if ck not in _EXPECT:
        _EXPECT[ck] = (sequential(sc, env, racers), sequential(sc, env, sc["probes"]))
    expected, expected_probes = _EXPECT[ck]
    try:
        prog, s, raw, results = run_schedule(sc, env, racers, spec["schedule"])
    except SC.HarnessStall as e:
        raise RuntimeError(f"scheduler stalled: {e} (spec {spec})")
    try:
        where = [p for p in s.preempted_at if p]
        inside = [p for p in where if p[3] in ("compile", "_compile", "resolve", "__missing__", "mro", "register",
                                               "register_signature", "recode", "adapt_function", "sort_types",
                                               "generate_dispatch", "wrap_dependent", "generate_dependent_dispatch",
                                               "first_entry", "instantiate_code", "analyze_arguments", "ensure_compiled")]
        # at least one pre-emption took place while the pre-empted thread was inside library / generated code and
        # another thread still had work to do (labels below say where, when the function names are recognised)
        res.nontrivial = bool(where)
        res.key = f"{spec['scenario']}:{spec.get('variant', 0)}:{spec.get('swap')}:{spec.get('threads', 2)}:" + \
                  ",".join(f"{p[1]}:{p[2]}" for p in where)
        res.label("scenario:" + spec["scenario"], f"preemptions:{len(where)}", f"threads:{len(racers)}")
        for p in inside:
            res.label("preempt-in:" + p[3])
        for i, c in enumerate(racers):
            r = raw[i]
            if r is None or r[0] != "ok":
                res.fail(f"worker {i} died: {r}", None)
                continue
            got = r[1]
            if got != expected[i]:
                res.fail(
                    f"scenario {spec['scenario']} schedule {spec['schedule']} (pre-empted at {where}): thread {i} calling "
                    f"{c['args']} script={c.get('script')} got {got} ({results[i][1].detail[:160]}), alone on a fresh "
                    f"function it gets {expected[i]}",
                    "C19:racing-lazy-build" if spec["scenario"].startswith(("first", "chain", "dependent", "method"))
                    and not sc["warm"] else None,
                )
        if not res.disagreements:
            for c, exp in zip(sc["probes"], expected_probes):
                got, out = observe(prog, c, env)
                if got != exp:
                    res.fail(
                        f"scenario {spec['scenario']} schedule {spec['schedule']} (pre-empted at {where}): afterwards "
                        f"probe {c['args']} script={c.get('script')} gives {got} ({out.detail[:160]}), fresh function {exp}",
                        "C19:racing-lazy-build" if not sc["warm"] else None,
                    )
                    break
    finally:
        prog.close()
    return res


# ----------------------------------------------------------------------------- OS-thread stress (auxiliary)


def run_stress(spec):
    res = R.CaseResult()
    env = H.build(HIER)
    sc = scenario(spec["scenario"], 0)
    racers = sc["racers"] * 2
    expected = sequential(sc, env, racers)
    expected_probes = sequential(sc, env, sc["probes"])
    old = sys.getswitchinterval()
    sys.setswitchinterval(1e-6)
    try:
        for rnd in range(spec["rounds"]):
            prog = build(sc, env)
            barrier = threading.Barrier(len(racers))
            got = {}

            def work(i, c):
                barrier.wait()
                got[i] = observe(prog, c, env)[0]

            ts = [threading.Thread(target=work, args=(i, c)) for i, c in enumerate(racers)]
            [t.start() for t in ts]
            [t.join(30) for t in ts]
            for i in range(len(racers)):
                if got.get(i) != expected[i]:
                    res.fail(f"OS-thread stress, scenario {spec['scenario']} round {rnd}: thread {i} got {got.get(i)}, "
                             f"alone {expected[i]}", "C19:racing-lazy-build" if not sc["warm"] else None)
                    break
            if not res.disagreements:
                for c, exp in zip(sc["probes"], expected_probes):
                    g = observe(prog, c, env)[0]
                    if g != exp:
                        res.fail(f"OS-thread stress {spec['scenario']} round {rnd}: afterwards probe {c['args']} gives {g}, "
                                 f"fresh {exp}", "C19:racing-lazy-build" if not sc["warm"] else None)
                        break
            prog.close()
            if res.disagreements:
                break
    finally:
        sys.setswitchinterval(old)
    res.nontrivial = True
    res.key = f"stress:{spec['scenario']}:{spec['rounds']}"
    res.label("os-thread-stress")
    return res


def dispatch_case(spec):
    if spec.get("kind") == "stress":
        return run_stress(spec)
    return run_case(spec)


def sampled_strategy():
    from hypothesis import strategies as st

    @st.composite
    def _s(draw):
        name = draw(st.sampled_from(SCENARIOS))
        threads = draw(st.sampled_from([2, 2, 2, 3]))
        npre = draw(st.integers(1, 3))
        schedule = [draw(st.integers(1, 900)) for _ in range(npre)]
        return {"scenario": name, "variant": draw(st.integers(0, 1)), "swap": draw(st.booleans()), "threads": threads,
                "third": draw(st.integers(0, 5)), "schedule": schedule}

    return _s()


class Check:
    id = "C19"
    level = "exploration"
    rule = (
        "Harness-owned schedules (cooperative scheduler, every executed library line is a yield point) over 10 racing "
        "scenarios: quick = every 5th single-pre-emption point of each scenario in both thread orders, two-pre-emption "
        "schedules (first 16 points of one thread x every 25th of the other) on the racing first calls, plus 400 "
        "Hypothesis-drawn schedules with 1-3 pre-emptions (2 or 3 threads); thorough = ALL single-pre-emption points, "
        "20 000 sampled multi-pre-emption schedules and OS-thread stress rounds. Each thread's (kind, winner, trace) must "
        "equal the same call alone on a fresh function and a probe set afterwards must equal the fresh function's. "
        "Non-trivial = at least one pre-emption inside the build / resolution code; distinct by (scenario, thread "
        "order, pre-emption lines)."
    )
    assumptions = [
        "interleavings are explored at source-line granularity of library code with a bounded number of pre-emptions; "
        "bytecode-level switches inside one line, the free-threaded build and C-level races are not explored",
        "only fully defined functions race (no registration during calls)",
    ]

    def tasks(self, tier, seed):
        t = []
        stride = 5 if tier == "quick" else 1
        for name in SCENARIOS:
            for swap in (False, True):
                t.append({"kind": "single", "scenario": name, "swap": swap, "stride": stride, "offset": seed % stride})
        # two pre-emptions on the racing first calls: the first thread is pre-empted at one of its first `head` yield
        # points, the second one anywhere (strided); then the first runs to its end, then the second
        head, stride2 = (16, 25) if tier == "quick" else (80, 2)
        for name in PAIR_SCENARIOS:
            for swap in (False, True):
                for k1 in range(1, head + 1):
                    t.append({"kind": "pair", "scenario": name, "swap": swap, "k1": k1, "stride": stride2,
                              "offset": (seed + k1) % stride2})
        n = 25 if tier == "quick" else 1250
        t += [{"kind": "rand", "seed": seed * 1000 + i, "n": n} for i in range(16)]
        if tier == "thorough":
            t += [{"kind": "stress", "scenario": name, "rounds": 30} for name in SCENARIOS]
        return t

    def run_task(self, task):
        st = R.Stats()
        sigs = R.open_signatures(self.id)
        if task["kind"] == "single":
            env = H.build(HIER)
            sc = scenario(task["scenario"], 0)
            racers = sc["racers"][::-1] if task["swap"] else sc["racers"]
            n0, total = count_steps(sc, env, racers)
            specs = [{"scenario": task["scenario"], "variant": 0, "swap": task["swap"], "threads": 2, "schedule": [k]}
                     for k in range(1 + task["offset"], n0 + 1, task["stride"])]
            R.run_enumerated(st, specs, dispatch_case, sigs)
            st.extra["single_preemption_points_of_scenarios"] = n0
        elif task["kind"] == "pair":
            env = H.build(HIER)
            sc = scenario(task["scenario"], 0)
            racers = sc["racers"][::-1] if task["swap"] else sc["racers"]
            n1, total = count_steps(sc, env, racers[::-1])  # yield points of the OTHER thread when it runs alone
            specs = [{"scenario": task["scenario"], "variant": 0, "swap": task["swap"], "threads": 2,
                      "schedule": [task["k1"], k2]} for k2 in range(1 + task["offset"], n1 + 1, task["stride"])]
            R.run_enumerated(st, specs, dispatch_case, sigs)
        elif task["kind"] == "stress":
            R.run_enumerated(st, [{"kind": "stress", "scenario": task["scenario"], "rounds": task["rounds"]}], dispatch_case, sigs)
        else:
            R.run_given(st, sampled_strategy(), dispatch_case, task["seed"], task["n"], sigs, shrink_budget_s=30)
        return st

    def run_case(self, spec):
        return dispatch_case(spec)


CHECK = Check()

if __name__ == "__main__":
    sys.exit(R.main("checks.c19"))
