"""C09 - source rewriting changes nothing except the recurse / call_next call sites.

A grammar (st.recursive over source text) places recurse / call_next calls in expression contexts: nested call
argument, comprehension element / condition / iterable, generator expression, lambda, nested def, conditional and
boolean operators, f-string, keyword / starred / double-starred arguments, walrus, try/finally, generator
function, closures over factory variables, positional and keyword-only defaults; functions and methods with self.
Argument expressions are side-effecting probes _P(i, v) that log (i, line offset).
Oracle (behavioural differential): the SAME body text is registered twice -
   real:      recurse(...) / call_next(...)                       (rewritten by ovld)
   reference: REC_(...) / CN_(...) ordinary callables of the documented meaning
              (REC_ = the overloaded function itself, CN_ = the function without the current method)
and for every input the probe log (count, order, relative line numbers), the result, the exception type /
message, the relative line numbers of the traceback frames in the generated file, default / keyword-only
default / closure values (by identity) and generator laziness must agree.  Building must never fail.
"""
import linecache
import sys
import traceback

from vlib import boot  # noqa: F401
from vlib import runner as R
from vlib.outcome import classify_exc
from vlib.prog import install_source

import ovld


class Tok:
    pass


class TokG:
    pass


# ----------------------------------------------------------------------------- grammar


_EXPR = {}


def expr_strategy(allow_cn):
    if allow_cn not in _EXPR:
        _EXPR[allow_cn] = _expr_strategy(allow_cn)
    return _EXPR[allow_cn]


def _expr_strategy(allow_cn):
    from hypothesis import strategies as st

    atom = st.sampled_from(["@P(1)", "@P(2)", "@P('s')", "@P('boom')", "@P(3)"])

    def site_only(inner):
        # a plain rewritten call (so that the later argument certainly contains one)
        return inner.map(lambda a: "{REC}(%s)" % a)

    def site(inner):
        forms = [
            inner.map(lambda a: "{REC}(%s)" % a),
            st.just("{REC}(v, k=(v := @P(8)))"),  # a bare local read before a later argument rebinds it
            st.just("{REC}(v, (v := @P(8)))"),  # ... the same on the statically rewritten (all-positional) path
            st.just("{REC}(v)"),
            inner.map(lambda a: "{REC}(%s, k=@P(7))" % a),
            inner.map(lambda a: "{REC}(*[%s])" % a),
            inner.map(lambda a: "{REC}(%s, **{'k': @P(9)})" % a),
            # several arguments, any of which may contain another rewritten call: the arguments already evaluated
            # for the outer call must survive the evaluation of the later ones
            st.tuples(inner, inner).map(lambda t: "{REC}(%s, k=%s)" % t),
            st.tuples(inner, inner).map(lambda t: "{REC}(%s, %s)" % t),
            # (positional forms keep the statically rewritten path; sites with keywords compute their key at run time)
            st.tuples(inner, inner).map(lambda t: "{REC}(%s, %s)" % t),
            st.tuples(inner, inner).map(lambda t: "{REC}(%s, (lambda: %s)())" % t),
            st.tuples(inner, inner).map(lambda t: "{REC}(%s, list(%s for _i in (0,)))" % t),
            st.tuples(inner, inner).map(lambda t: "{REC}(*[%s, %s])" % t),
            st.tuples(inner, inner).map(lambda t: "{REC}(%s, [%s for _i in (0, 1)])" % t),
            st.tuples(inner, site_only(inner)).map(lambda t: "{REC}(%s, [%s for _i in (0, 1)])" % t),
            st.tuples(inner, site_only(inner)).map(lambda t: "{REC}(%s, {_k: %s for _k in 'ab'})" % t),
            st.tuples(inner, site_only(inner)).map(lambda t: "{REC}(%s, list(%s for _i in (0,)))" % t),
            st.tuples(inner, inner).map(lambda t: "{REC}(%s, k=list(%s for _i in (0,)))" % t),
            st.tuples(inner, inner).map(lambda t: "{REC}(%s, k=(lambda: %s)())" % t),
        ]
        # the recursion name used as a VALUE (an alias, an argument of map, a key function)
        forms += [
            inner.map(lambda a: "list(map({REC}, [%s]))[0]" % a),
            inner.map(lambda a: "(lambda _r: _r(%s))({REC})" % a),
            inner.map(lambda a: "[_r(%s) for _r in ({REC},)][0]" % a),
        ]
        if allow_cn:
            forms += [st.just("{CN}(@Q(x))"), st.just("{CN}(@Q(x))"), st.just("{CN}(*[@Q(x)])"),
                      inner.map(lambda a: "{CN}(@Q(x), k=%s)" % a)]
        return st.one_of(*forms)

    def extend(ch):
        s = site(st.one_of(atom, ch))
        return st.one_of(
            s, s, s,
            ch.map(lambda a: "_G(%s, @P(4))" % a),
            st.tuples(ch, ch).map(lambda t: "_G(%s, %s)" % t),
            ch.map(lambda a: "[%s for _i in (0, 1)]" % a),
            ch.map(lambda a: "[@P(5) for _i in (0, 1) if %s]" % a),
            ch.map(lambda a: "[_y for _y in _L(%s)]" % a),
            ch.map(lambda a: "list(%s for _i in (0,))" % a),
            ch.map(lambda a: "(lambda: %s)()" % a),
            ch.map(lambda a: "(lambda _z=%s: _z)()" % a),
            st.tuples(ch, ch).map(lambda t: "(%s if @P(0) else %s)" % t),
            st.tuples(ch, ch).map(lambda t: "(%s and %s)" % t),
            st.tuples(ch, ch).map(lambda t: "(%s or %s)" % t),
            ch.map(lambda a: "f'<{%s}>'" % a),
            ch.map(lambda a: "(_w := %s)" % a),
            ch.map(lambda a: "_G(k=%s)" % a),
            ch.map(lambda a: "{'a': %s}['a']" % a),
            ch.map(lambda a: "{_k: %s for _k in 'ab'}" % a),
        )

    def valid(e):
        # the grammar is compositional; a few combinations are not Python (a walrus inside a comprehension
        # iterable, ...): keep only expressions the compiler accepts as written
        try:
            compile("def _t(x):\n    return " + number(e, [0]).replace("{REC}", "r").replace("{CN}", "c"), "<g>", "exec")
            return True
        except SyntaxError:
            return False

    return st.recursive(st.one_of(atom, site(atom)), extend, max_leaves=6).filter(valid)


def _ok_in_class_body(e):
    try:
        compile("def _t(x, v, acc):\n    class _C:\n        val = "
                + number(e, [0]).replace("{REC}", "r").replace("{CN}", "c"), "<g>", "exec")
        return True
    except SyntaxError:
        return False


def case_strategy():
    from hypothesis import strategies as st

    @st.composite
    def _case(draw):
        host = draw(st.sampled_from(["func", "func", "method"]))
        nst = draw(st.integers(1, 4))
        stmts = []
        for _ in range(nst):
            kind = draw(st.sampled_from(["append", "append", "append", "try", "nested", "assign", "if",
                                         "localclass", "classbody"]))
            e = draw(expr_strategy(allow_cn=False))
            if kind == "classbody" and not _ok_in_class_body(e):
                kind = "localclass"  # (a walrus inside a comprehension is not allowed directly in a class body)
            stmts.append([kind, e])
        hi = [[draw(st.sampled_from(["append", "append", "try"])), draw(expr_strategy(allow_cn=True))]
              for _ in range(draw(st.integers(0, 2)))]
        gen = [["yield", draw(expr_strategy(allow_cn=False))] for _ in range(draw(st.integers(0, 2)))]
        return {"host": host, "stmts": stmts, "hi": hi, "gen": gen,
                "closure": draw(st.booleans()), "defaults": draw(st.booleans()),
                # the method's own scope rebinds a builtin name the generated lookup might rely on
                "shadow": draw(st.sampled_from([None, None, None, "type", "isinstance", "tuple"])),
                "mlstr": draw(st.sampled_from([None, None, None, "", "\\n    indented"])),
                "private": host == "method" and draw(st.integers(0, 3)) == 0,
                "future": draw(st.integers(0, 5)) == 0,
                "late_cell": draw(st.integers(0, 3)) == 0,
                # how the body spells the recursion: the special `recurse`, the function's own name (a global, or a
                # closure cell when the functions are built in a factory), or both
                "recname": draw(st.sampled_from(["recurse", "recurse", "self", "both"])) if host == "func" else "recurse"}

    return _case()


# ----------------------------------------------------------------------------- rendering


def number(expr, nxt):
    out = []
    i = 0
    while i < len(expr):
        if expr.startswith("@P(", i):
            out.append("_P(%d, " % nxt[0])
            nxt[0] += 1
            i += 3
        elif expr.startswith("@Q(", i):
            out.append("_Q(%d, " % nxt[0])
            nxt[0] += 1
            i += 3
        else:
            out.append(expr[i])
            i += 1
    return "".join(out)


def render_stmt(kind, e, ind):
    if kind == "append":
        return [f"{ind}acc.append({e})"]
    if kind == "try":
        return [f"{ind}try:", f"{ind}    acc.append({e})", f"{ind}finally:", f"{ind}    acc.append(_P(90, 'fin'))"]
    if kind == "nested":
        return [f"{ind}def inner(q=0):", f"{ind}    return {e}", f"{ind}acc.append(inner())"]
    if kind == "localclass":  # the site sits in a method of a class statement local to the method
        return [f"{ind}class _Loc:", f"{ind}    def run(self_, q=0):", f"{ind}        return {e}",
                f"{ind}acc.append(_Loc().run())"]
    if kind == "classbody":  # ... or directly in the body of such a class
        return [f"{ind}class _Loc2:", f"{ind}    val = {e}", f"{ind}acc.append(_Loc2.val)"]
    if kind == "assign":
        return [f"{ind}v = {e}", f"{ind}acc.append(v)"]
    if kind == "if":
        return [f"{ind}if {e}:", f"{ind}    acc.append(_P(91, 'yes'))", f"{ind}else:", f"{ind}    acc.append(_P(92, 'no'))"]
    if kind == "yield":
        return [f"{ind}yield {e}"]
    raise ValueError(kind)


def render(spec, real):
    """-> source text; `real`: use recurse / call_next, else the reference callables"""
    nxt = [100]
    method = spec["host"] == "method"
    slf = "self, " if method else ""
    names = {"REC": "recurse", "CN": "call_next"} if real else {
        "REC": "self.f" if method else "REC_", "CN": "CN_"}
    recname = spec.get("recname", "recurse")
    flip = [0]

    def rec_name():
        if not real or method or recname == "recurse":
            return names["REC"]
        if recname == "self":
            return "f"
        flip[0] += 1
        return "f" if flip[0] % 2 else "recurse"

    def subst(e):
        while "{REC}" in e:
            e = e.replace("{REC}", rec_name(), 1)
        return e
    ind = "    " if not method else "        "
    base = "" if not method else "    "
    lines = []
    if method:
        lines.append("class Host(OvldBase):")
        if spec.get("private"):
            lines.append("    __priv = ('private', 1)")

    def emit_def(deco, sig, body_lines):
        if not method and not deco:
            deco = ["@ovld"]
        for d in deco:
            lines.append(base + d)
        lines.append(f"{base}def f({slf}{sig}):")
        lines.extend(body_lines)

    emit_def([], "x: int, *, k: object = 0", [f"{ind}_P(50, 'leaf')", f"{ind}return ('I', x, k)"])
    emit_def([], "x: str, *, k: object = 0", [f"{ind}if x == 'boom':", f"{ind}    raise ValueError('boom!')",
                                             f"{ind}return ('S', x, k)"])
    emit_def([] if method else [], "x: list, *, k: object = 0", [f"{ind}return ('L', len(x), k)"])
    if spec.get("two", True):
        emit_def([], "x: int, y: object, /, *, k: object = 0", [f"{ind}return ('I2', x, y, k)"])
        emit_def([], "x: str, y: object, /, *, k: object = 0", [f"{ind}return ('S2', x, y, k)"])
    # the method under test
    sig = "x: Tok, *, k: object = 0"
    if spec["defaults"]:
        sig = "x: Tok, d=DEF_D, lam=lambda q: ('lam', q), *, k: object = 0, kd=DEF_KD, klam=lambda q: ('klam', q)"
    body = [f"{ind}acc = []", f"{ind}v = 1"]
    if spec.get("shadow"):
        body.append(f"{ind}{spec['shadow']} = 5")
    if spec.get("future"):
        # under `from __future__ import annotations` this annotation is never evaluated
        body += [f"{ind}def _ann(q: NotDefinedAnywhere = 0):", f"{ind}    return q", f"{ind}acc.append(_ann())"]
    if spec.get("private") and method:
        body.append(f"{ind}acc.append(self.__priv)")  # a class-private name (mangled by the compiler)
    if spec.get("mlstr"):
        # a multi-line string literal whose continuation lines sit left of the (indented) def
        body += [f'{ind}acc.append("""m1', "  m2", f'm3{spec["mlstr"]}""")']
    for kind, e in spec["stmts"]:
        e2 = subst(number(e, nxt)).replace("{CN}", names["CN"])
        body += render_stmt(kind, e2, ind)
    ret = "acc, k"
    if spec["defaults"]:
        ret += ", d, kd, lam(1), klam(2)"
    if spec["closure"]:
        ret += ", ACV, zCV"
        if spec.get("late_cell"):
            ret += ", LATE"
    body.append(f"{ind}return ({ret},)")
    emit_def([], sig, body)
    if spec["hi"]:
        body = [f"{ind}acc = []", f"{ind}v = 1"]
        if spec.get("shadow"):
            body.append(f"{ind}{spec['shadow']} = 5")
        for kind, e in spec["hi"]:
            e2 = subst(number(e, nxt))
            if real:
                e2 = e2.replace("{CN}", "call_next")
            else:
                e2 = e2.replace("{CN}(", "CN_(self, " if method else "CN_(")
            body += render_stmt(kind, e2, ind)
        body.append(f"{ind}return ('hi', acc)")
        emit_def(["@ovld(priority=1)"], "x: Tok", body)
    if spec["gen"]:
        body = [f"{ind}v = 1"]
        for kind, e in spec["gen"]:
            e2 = subst(number(e, nxt)).replace("{CN}", names["CN"])
            body += render_stmt(kind, e2, ind)
        emit_def([], "x: TokG", body)
    src = "\n".join(lines) + "\n"
    if spec.get("future") and not spec["closure"]:
        src = "from __future__ import annotations\n" + src
    if spec["closure"]:
        # wrap everything in a factory so that CV is a closure cell
        late = ""
        if spec.get("late_cell"):
            # the factory calls the function before a variable one of the methods closes over is assigned
            late = ("    _early = Host().f(3)\n" if method else "    _early = f(3)\n") + "    LATE = ('late', _early)\n"
        src = "def make(ACV, zCV):\n" + "".join("    " + l + "\n" for l in src.splitlines()) + late + (
            "    return Host\n" if method else "    return f\n")
        if spec.get("future"):
            src = "from __future__ import annotations\n" + src
    return src


# ----------------------------------------------------------------------------- execution


class Probes:
    def __init__(self):
        self.log = []

    def P(self, i, v=None):
        fr = sys._getframe(1)
        self.log.append((i, fr.f_lineno))  # both programs have the same line layout: absolute numbers
        return v

    def Q(self, i, v):
        fr = sys._getframe(1)
        self.log.append((i, fr.f_lineno))
        return v


def _G(*a, **k):
    return ("G", a, tuple(sorted(k.items())))


def _L(v):
    return [v]


def build(spec, real):
    src = render(spec, real)
    fname = install_source(src, tag="verifc09")
    pr = Probes()
    defd, defkd, cv, cv2 = ["D"], ("KD",), {"cv": 1}, {"cv": 2}
    glb = {"__name__": "verifc09mod", "ovld": ovld.ovld, "OvldBase": ovld.OvldBase, "recurse": ovld.recurse,
           "call_next": ovld.call_next, "Tok": Tok, "TokG": TokG, "_P": pr.P, "_Q": pr.Q, "_G": _G, "_L": _L,
           "DEF_D": defd, "DEF_KD": defkd}
    exec(compile(src, fname, "exec"), glb, glb)
    method = spec["host"] == "method"
    if spec["closure"]:
        obj = glb["make"](cv, cv2)
    else:
        obj = glb["Host"] if method else glb["f"]
    if method:
        inst = obj()
        fn = inst.f
        ov = obj.__dict__["f"].__ovld__
    else:
        inst = None
        fn = obj
        ov = obj.__ovld__
    target_globals = glb
    return {"src": src, "fname": fname, "glb": target_globals, "fn": fn, "ov": ov, "probes": pr, "inst": inst,
            "objs": (defd, defkd, cv, cv2), "method": method}


def install_reference(ref, spec):
    """bind REC_ / CN_ in the reference program: ordinary callables of the documented meaning"""
    fn, ov, glb = ref["fn"], ref["ov"], ref["glb"]
    method = ref["method"]

    def REC_(*a, **k):
        return fn(*a, **k)

    # the function "had the current (priority 1) method not been registered"
    ov2 = ovld.Ovld()
    hi_fns = []
    for sig, f in ov.defns.items():
        if sig.priority == 1:
            hi_fns.append(f)
            continue
        ov2.register(f, priority=sig.priority)

    def CN_(*a, **k):
        return ov2.dispatch(*a, **k)

    # the functions may live in a factory closure: their globals are the module dict either way
    for sig, f in ov.defns.items():
        f.__globals__["REC_"] = REC_
        f.__globals__["CN_"] = CN_
    ref["ov2"] = ov2


def run_one(prog, arg_kind):
    pr = prog["probes"]
    del pr.log[:]
    arg = Tok() if arg_kind == "tok" else TokG()
    lazy = None
    try:
        v = prog["fn"](arg)
        if arg_kind == "gen":
            lazy = len(pr.log) == 0
            v = list(v)
        out = ("ok", v)
    except RecursionError:
        raise
    except Exception as e:  # noqa: BLE001
        frames = []
        for fs in traceback.extract_tb(e.__traceback__):
            if fs.filename == prog["fname"]:
                frames.append((fs.name.split("[")[0], fs.lineno))
        kind = classify_exc(e, e.__traceback__)
        out = ("exc", type(e).__name__, str(e) if not isinstance(e, TypeError) else kind, frames)
    return out, list(pr.log), lazy


def normalise_frames(frames, src_lines_real, prog):
    return frames


def same_value(a, b, objs_a, objs_b):
    """structural equality, with the default / closure objects compared by identity to each program's own"""
    if any(a is o for o in objs_a):
        return any(b is o for o in objs_b) and [a is o for o in objs_a] == [b is o for o in objs_b]
    if isinstance(a, (list, tuple)) and type(a) is type(b):
        return len(a) == len(b) and all(same_value(x, y, objs_a, objs_b) for x, y in zip(a, b))
    if isinstance(a, dict) and isinstance(b, dict):
        return a.keys() == b.keys() and all(same_value(a[k], b[k], objs_a, objs_b) for k in a)
    return a == b and type(a) is type(b)


def run_case(spec):
    res = R.CaseResult()
    built = []
    try:
        try:
            real = build(spec, True)
            built.append(real)
            ref = build(spec, False)
            built.append(ref)
            install_reference(ref, spec)
        except Exception as e:  # noqa: BLE001
            res.fail(f"defining the program failed: {type(e).__name__}: {e}", None)
            return res
        text = real["src"]
        nsites = text.count("recurse(") + text.count("call_next(")
        ctx = sorted({c for c in ("for _i", "lambda", "if ", "f'<", ":=", "**{", "*[", "def inner", "class _Loc:", "class _Loc2:", "try:", "yield",
                                  "_L(", " and ", " or ", "k=") if c in text})
        for c in ctx:
            res.label("ctx:" + c.strip())
        for lab in nesting_labels(text):
            res.label(lab)
        res.label("host:" + spec["host"])
        kinds = ["tok"] + (["gen"] if spec["gen"] else [])
        for kind in kinds:
            o1, log1, lazy1 = run_one(real, kind)
            o2, log2, lazy2 = run_one(ref, kind)
            what = f"input {kind}; program:\n{text}"
            if o1[0] == "exc" and o1[1] in ("SyntaxError", "UsageError", "NameError", "AttributeError", "OSError") \
                    and o2[0] != "exc":
                res.fail(f"the rewritten method failed to build/run: {o1[1]}: {o1[2]} - reference gives {o2[:2]}; {what}",
                         classify_build(o1, text))
                break  # after a failed build the function's state is C18's subject, not this check's
            if o1[0] != o2[0]:
                res.fail(f"outcome kind differs: rewritten {o1[:3]} vs reference {o2[:3]}; {what}", classify_build(o1, text))
                continue
            if log1 != log2:
                res.fail(f"probe log differs (evaluation count / order / line numbers): rewritten {log1} vs reference "
                         f"{log2}; {what}", classify_build(o1, text))
                continue
            if o1[0] == "ok":
                if not same_value(o1[1], o2[1], real["objs"], ref["objs"]):
                    res.fail(f"result differs: rewritten {o1[1]!r} vs reference {o2[1]!r}; {what}", None)
                if kind == "gen" and lazy1 is not lazy2:
                    res.fail(f"generator laziness differs: {lazy1} vs {lazy2}; {what}", None)
            else:
                if o1[1:3] != o2[1:3]:
                    res.fail(f"exception differs: rewritten {o1[1:3]} vs reference {o2[1:3]}; {what}", classify_build(o1, text))
                else:
                    f1 = [(n, ln) for n, ln in o1[3]]
                    f2 = [(n, ln) for n, ln in o2[3]]
                    if f1 != f2:
                        res.fail(f"traceback frames/lines in the source file differ: rewritten {f1} vs reference {f2}; {what}",
                                 None)
        res.nontrivial = nsites >= 2 and len(ctx) >= 2 and "_P(" in text
        res.key = R.h64([ctx, text])
    finally:
        for b in built:
            linecache.cache.pop(b["fname"], None)
    return res


def nesting_labels(text):
    """which shapes of 'a rewritten call inside a LATER argument of another rewritten call' the program contains"""
    import ast

    names = ("recurse", "call_next", "f")
    out = set()

    def is_site(n):
        return isinstance(n, ast.Call) and isinstance(n.func, ast.Name) and n.func.id in names

    def inner_sites(node, through):
        for ch in ast.walk(node):
            if is_site(ch):
                return True
        return False

    try:
        tree = ast.parse(text)
    except SyntaxError:
        return out
    for n in ast.walk(tree):
        if not is_site(n):
            continue
        later = list(n.args[1:]) + [k.value for k in n.keywords]
        if n.args and isinstance(n.args[0], ast.Starred) and isinstance(n.args[0].value, (ast.List, ast.Tuple)):
            later += list(n.args[0].value.elts[1:])
        for a in later:
            if inner_sites(a, False):
                out.add("nest:site-in-later-argument")
                if any(isinstance(x, (ast.ListComp, ast.SetComp, ast.DictComp, ast.GeneratorExp)) for x in ast.walk(a)):
                    out.add("nest:site-in-later-argument-through-comprehension")
                if any(isinstance(x, ast.Lambda) for x in ast.walk(a)):
                    out.add("nest:site-in-later-argument-through-lambda")
    return out


def classify_build(o1, text):
    if o1[0] == "exc" and o1[1] == "AttributeError" and "__priv" in str(o1[2]) and "self.__priv" in text:
        return "C09:class-private-name-not-mangled"
    if o1[0] == "exc" and o1[1] == "SyntaxError" and "comprehension iterable" in str(o1[2]):
        return "C09:walrus-in-comprehension-iterable"
    if o1[0] == "exc" and o1[1] == "UsageError" and "call_next(*" in text:
        return "C09:call_next-with-starred-argument"
    return None


class Check:
    id = "C09"
    level = "exploration"
    rule = (
        "Hypothesis grammar over function bodies (1-4 statements, recursive expressions with <=6 leaves) placing "
        "recurse / call_next in nested calls, comprehension element / condition / iterable, generator expressions, "
        "lambdas (body and default), nested defs, conditional / boolean operators, f-strings, keyword / starred / "
        "double-starred arguments, walrus, dict displays, try/finally, generator functions, class statements local to "
        "the method (site in a method of the local class or directly in its body), closures (also a cell bound only after "
        "the factory's first call), defaults, __future__ annotations, in functions and OvldBase methods. The rewritten program and a reference program with ordinary callables must "
        "agree on probe log, result, exception, traceback lines, default/closure identity and laziness. Non-trivial = "
        ">=2 rewritten call sites in >=2 syntactic contexts with side-effecting arguments; distinct by (contexts, text)."
    )
    assumptions = [
        "reference meaning: recurse == calling the function itself; call_next == the function without the current method",
        "recurse arguments are ints/strs/lists, call_next arguments the original token, so the two reference callables "
        "never disagree about which function is re-entered",
        "locals()/vars()/dir() and decorated methods are outside the grammar",
    ]

    def tasks(self, tier, seed):
        per = 200 if tier == "quick" else 6000
        return [{"kind": "rand", "seed": seed * 1000 + i, "n": per} for i in range(16)]

    def run_task(self, task):
        st = R.Stats()
        # generation from this grammar is slow (recursive strategy + compile filter): a failing program is reported as
        # generated, after at most 20 s of shrinking (minimality only; the replay file is valid either way)
        R.run_given(st, case_strategy(), run_case, task["seed"], task["n"], R.open_signatures(self.id), shrink_budget_s=20.0,
                    shrink=task["n"] > 1000)
        return st

    def run_case(self, spec):
        return run_case(spec)


CHECK = Check()

if __name__ == "__main__":
    sys.exit(R.main("checks.c09"))
