"""Normalised outcomes of calls into ovld.

kinds
  ok         returned (value kept)
  nomethod   TypeError "No method in ..."
  ambiguous  TypeError "Ambiguous resolution in ..."
  rejected   a Python argument-binding TypeError raised by the ENTRY POINT itself (the
             generated dispatcher has one fixed signature per method set; a call shape it
             cannot bind is refused before any lookup).  Innermost frame = caller / first_entry.
  badcall    the same kind of binding TypeError but raised deeper: a *selected method* was
             invoked with a shape it cannot take  (always a finding candidate)
  config     configuration errors: UsageError, ArgumentAnalyzer TypeErrors, "locked", unreadable source
  user       an exception object the harness itself raised inside a body / predicate
  other      anything else (an internal error leaked; always a finding candidate)
"""
import re
import sys
import traceback

from .api import UsageError


class HarnessExc(Exception):
    """Raised on purpose by generated method bodies / predicates."""


class HarnessTypeError(HarnessExc, TypeError):
    """... of a type the library itself catches in places (a TypeError): it must pass through all the same."""


_BIND = re.compile(
    r"(missing \d+ required|takes (from )?\d+|takes no |got an unexpected keyword|"
    r"got multiple values|positional-only arguments passed as keyword|"
    r"got some positional-only arguments)"
)
_CONFIG_TE = re.compile(
    r"(is declared in different positions|is declared in a positional and keyword|"
    r"ovld does not support|Some, but not all registered methods)"
)


class Outcome:
    __slots__ = ("kind", "value", "exc", "detail")

    def __init__(self, kind, value=None, exc=None, detail=""):
        self.kind = kind
        self.value = value
        self.exc = exc
        self.detail = detail

    def brief(self):
        if self.kind == "ok":
            return f"ok:{self.value!r}"
        return f"{self.kind}:{self.detail[:160]}"

    def __repr__(self):
        return f"<Outcome {self.brief()}>"


def classify_exc(e, tb, own_code=None):
    msg = str(e)
    if isinstance(e, HarnessExc):
        return "user"
    if isinstance(e, UsageError):
        return "config"
    if isinstance(e, TypeError):
        if msg.startswith("No method in"):
            return "nomethod"
        if msg.startswith("Ambiguous resolution in"):
            return "ambiguous"
        if _CONFIG_TE.search(msg):
            return "config"
        if _BIND.search(msg):
            # Who refused the arguments?  The message names the function: the entry point carries the plain name
            # of the overloaded function, an adapted method is called "name[types]" and a generated value-dependent
            # dispatcher "name.specialized_dispatch_N".
            mname = re.match(r"^(.+?)\(\) ", msg)
            if mname:
                fname = mname.group(1)
                if "[" in fname or ".specialized_dispatch" in fname:
                    return "badcall"
            inner = tb
            while inner.tb_next is not None:
                inner = inner.tb_next
            code = inner.tb_frame.f_code
            if code is own_code or code.co_name == "first_entry" or (
                code.co_filename.endswith("core.py") and "first_entry" in code.co_qualname
            ):
                return "rejected"
            # the bootstrap trampoline is renamed after the function: recognise it by its body
            if code.co_filename.endswith("core.py") and code.co_freevars == ("ov",) and "dispatch" in code.co_names \
                    and code.co_varnames[:2] == ("args", "kwargs"):
                return "rejected"
            if code.co_filename.endswith("core.py") and code.co_name == "__call__":
                return "rejected"
            if mname and code.co_filename.replace("\\", "/").endswith("/ovld/core.py"):
                return "rejected"  # refused by the entry point, called from some trampoline inside the library
            return "badcall"
        return "other"
    if isinstance(e, OSError) and "ovld is unable to rewrite" in msg:
        return "config"
    if isinstance(e, Exception) and "is locked for modifications" in msg:
        return "config"
    return "other"


def capture(fn, *args, **kwargs):
    try:
        v = fn(*args, **kwargs)
    except RecursionError:
        raise
    except Exception as e:  # noqa: BLE001
        tb = e.__traceback__
        kind = classify_exc(e, tb, own_code=capture.__code__)
        detail = f"{type(e).__name__}: {e}"
        if kind in ("other", "badcall"):
            detail += " || " + " <- ".join(
                f"{fs.name}@{fs.filename.rsplit('/', 1)[-1]}:{fs.lineno}"
                for fs in reversed(traceback.extract_tb(tb)[-4:])
            )
        return Outcome(kind, exc=e, detail=detail)
    return Outcome("ok", value=v)


def same_kind(a, b):
    return a.kind == b.kind


F5_CYCLE = "F5:type-order-cycle-between-hook-owning-types"


def is_f5_cycle(out):
    """graphlib.CycleError leaking from the per-argument type sort: a consequence of the recorded finding F5
    (type order not mirror-consistent between two hook-owning types); whether it strikes depends on set order"""
    return out is not None and out.kind == "other" and "CycleError" in (out.detail or "")
