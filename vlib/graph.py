"""Graphs of overloaded functions related by copy / variant / mixins (C08, C16).

Method spec: {"id": k, "kind": "leaf"|"walk_list"|"walk_tuple"|"walk_dict", "ann": <plain class spec>,
              "prio": 0, "rec": "recurse"|"self"}
   leaf        returns ("leaf", k)
   walk_list   x: list   -> ["L", k] + [recurse(a) for a in x]
   walk_tuple  x: tuple  -> ("T", k) + tuple(recurse(a) for a in x)
   walk_dict   x: dict   -> {key: recurse(v)}  plus {"__m__": k}
 With "rec": "self" the body names the function it is registered on (only generated for root nodes).

Reference semantics (no ovld): `effective(node)` = parents' effective methods (mixin order) overlaid by the
node's own, a method of identical signature replacing the inherited one; `eval_ref(methods, x)` resolves x
in that set with vlib.model and maps itself over children for walker methods.
"""
import linecache

from . import hier as H
from . import model as M
from . import spec as S
from .prog import install_source

WALK_ANN = {"walk_list": ["cls", "list"], "walk_tuple": ["cls", "tuple"], "walk_dict": ["cls", "dict"]}


def method_ann(m):
    return WALK_ANN.get(m["kind"], m.get("ann"))


def as_model_method(m):
    return {"id": m["id"], "pos": [{"name": "x", "ann": method_ann(m)}], "kw": [], "prio": m.get("prio", 0)}


def render_method(m, fname):
    k = m["id"]
    rec = "recurse" if m.get("rec", "recurse") == "recurse" else fname
    # every method is called `f`, as in real code (`@f.variant\ndef f(...)`): functions of a graph share their __name__
    head = f"def f(x: GA{k}):\n    _LOG.append({k})\n"
    call = (lambda a: f"{rec}(*[{a}])") if m.get("dyn") else (lambda a: f"{rec}({a})")  # noqa: E731
    if m["kind"] == "leaf":
        return head + f"    return ('leaf', {k})\n"
    if m["kind"] == "walk_list":
        return head + f"    return ['L', {k}] + [{call('a')} for a in x]\n"
    if m["kind"] == "walk_tuple":
        return head + f"    return ('T', {k}) + tuple({call('a')} for a in x)\n"
    if m["kind"] == "walk_dict":
        return head + f"    return dict({{kk: {call('v')} for kk, v in x.items()}}, __m__={k})\n"
    if m["kind"] == "next":
        return head + f"    return ('next', {k}, call_next(x))\n"
    raise ValueError(m["kind"])


class FnGraph:
    """Live graph.  Nodes are created one by one (so state machines can interleave operations)."""

    def __init__(self, hspec, env=None):
        import ovld

        self.ovldmod = ovld
        self.env = env if env is not None else H.build(hspec)
        self.nodes = {}  # id -> Ovld
        self.fns = {}  # (node, method id) -> function
        self.log = []
        self.files = []
        self.glbs = []

    def _define(self, node_id, m, self_name):
        src = render_method(m, self_name)
        fname = install_source(src, tag="verifg")
        glb = {"__name__": f"verifgraph_n{node_id}", "recurse": self.ovldmod.recurse,
               "call_next": self.ovldmod.call_next, "_LOG": self.log,
               f"GA{m['id']}": S.build_ann(method_ann(m), self.env)}
        exec(compile(src, fname, "exec"), glb, glb)
        self.files.append(fname)
        self.glbs.append(glb)
        fn = glb["f"]
        self.fns[(node_id, m["id"])] = (fn, glb, self_name)
        return fn

    def create(self, node_id, kind, parents=(), linkback=False):
        O = self.ovldmod.Ovld
        ps = [self.nodes[p] for p in parents]
        if kind == "root":
            ov = O()
        elif kind == "copy":
            ov = ps[0].copy(linkback=linkback)
        elif kind == "mixins":
            ov = O(mixins=ps, linkback=linkback)
        else:
            raise ValueError(kind)
        self.nodes[node_id] = ov
        return ov

    def register(self, node_id, m):
        name = f"FN{node_id}"
        fn = self._define(node_id, m, name)
        ov = self.nodes[node_id]
        ov.register(fn, priority=m.get("prio", 0))
        # the name the body may use for "the function itself"
        fn.__globals__[name] = ov.dispatch
        return fn

    def unregister(self, node_id, mid):
        fn = self.fns[(node_id, mid)][0]
        self.nodes[node_id].unregister(fn)

    def add_mixins(self, node_id, parents):
        self.nodes[node_id].add_mixins(*[self.nodes[p] for p in parents])

    def call(self, node_id, value):
        from .outcome import capture

        del self.log[:]
        ov = self.nodes[node_id]
        return capture(ov.dispatch if hasattr(ov, "dispatch") else ov, value)

    def close(self):
        for f in self.files:
            linecache.cache.pop(f, None)
        for g in self.glbs:
            g.clear()


# ----------------------------------------------------------------------------- reference semantics


def overlay(parent_lists, own):
    """effective methods: parents in order, then own; identical signature => later replaces earlier."""
    out = {}
    for lst in list(parent_lists) + [own]:
        for m in lst:
            out[M.sig_key(as_model_method(m))] = m
    return list(out.values())


class RefFail(Exception):
    def __init__(self, kind):
        self.kind = kind


def eval_ref(eff, node, x, env):
    """eff: {node: effective method list}; each method carries "owner" (the node it was registered on).
    A walker using `recurse` re-enters the function that was called (`node`); a walker naming the function
    it was registered on re-enters that function (plain Python name semantics)."""
    methods = eff[node]
    mm = [as_model_method(m) for m in methods]
    seq = {m["id"]: i for i, m in enumerate(mm)}
    r = M.resolve(mm, [x], {}, env, seq)
    if r[0] != "method":
        raise RefFail(r[0])
    m = next(mm_ for mm_ in methods if mm_["id"] == r[1])
    return _apply_ref(eff, node, methods, mm, seq, m, x, env)


def _apply_ref(eff, node, methods, mm, seq, m, x, env):
    k = m["id"]
    if m["kind"] == "leaf":
        return ("leaf", k)
    if m["kind"] == "next":
        # call_next: the method after this one in the successive resolutions of x (in the called node's method set)
        ch = M.chain(mm, [x], {}, env, seq)
        for i, r in enumerate(ch):
            if r == ("method", k):
                nx = ch[i + 1]
                if nx[0] != "method":
                    raise RefFail(nx[0])
                m2 = next(z for z in methods if z["id"] == nx[1])
                return ("next", k, _apply_ref(eff, node, methods, mm, seq, m2, x, env))
        raise RefFail("unspec")
    nxt = node if m.get("rec", "recurse") == "recurse" else m["owner"]
    if m["kind"] == "walk_list":
        return ["L", k] + [eval_ref(eff, nxt, a, env) for a in x]
    if m["kind"] == "walk_tuple":
        return ("T", k) + tuple(eval_ref(eff, nxt, a, env) for a in x)
    if m["kind"] == "walk_dict":
        return dict({kk: eval_ref(eff, nxt, v, env) for kk, v in x.items()}, __m__=k)
    raise ValueError(m["kind"])
