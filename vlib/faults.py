"""Line-level fault injection into ovld (and its generated code) through sys.settrace.

    inj = Injector(k)          # raise Injected at the k-th executed line of library / generated code
    with inj:
        operation()
    inj.fired  -> (file, line, function) or None;  inj.count -> number of line events seen

Only frames whose code lives under the ovld source tree or in "<ovld:...>" generated files are traced, so
`k` ranges over "every executed source line of the library" during the operation.  The exception is a
BaseException subclass (like KeyboardInterrupt: `except Exception` blocks do not swallow it) and fires once.
"""
import os
import sys

from . import boot

SRC = os.path.join(boot.SRC, "ovld") + os.sep


class Injected(BaseException):
    pass


class Injector:
    def __init__(self, k=None):
        self.k = k
        self.count = 0
        self.fired = None
        self.lines = []  # (file, line, func) of every event when recording
        self.record = k is None

    def _global(self, frame, event, arg):
        fn = frame.f_code.co_filename
        if fn.startswith(SRC) or fn.startswith("<ovld:"):
            return self._local
        return None

    def _local(self, frame, event, arg):
        if event == "line":
            self.count += 1
            if self.record:
                co = frame.f_code
                self.lines.append((os.path.basename(co.co_filename) if co.co_filename.startswith(SRC) else "<generated>",
                                   frame.f_lineno, co.co_name))
            elif self.count == self.k and self.fired is None:
                co = frame.f_code
                self.fired = (os.path.basename(co.co_filename) if co.co_filename.startswith(SRC) else "<generated>",
                              frame.f_lineno, co.co_name)
                raise Injected(f"injected at {self.fired}")
        return self._local

    def __enter__(self):
        self._old = sys.gettrace()
        sys.settrace(self._global)
        return self

    def __exit__(self, *exc):
        sys.settrace(self._old)
        return False
