"""Reference dispatch model: an independent re-statement of the documented resolution rule.
No ovld import.  Works on method specs (see prog.py) and real argument values.

  applicable(m, args, kwargs)  arity window, keyword names, every supplied value accepted
  beats(a, b, n, kwnames)      priority; else pointwise order on the SUPPLIED parameters
                               (all LESS/SAME, not all SAME); else identical signature and later
  resolve(...)                 ("method", id) | ("nomethod",) | ("ambiguous",) | ("unspec", why)
  chain(...)                   the rank walk call_next promises
"""
from . import spec as S


def req_pos(m):
    return sum(1 for p in m["pos"] if not p.get("opt"))


def max_pos(m):
    return len(m["pos"])


def kw_names(m):
    return {p["name"] for p in (m.get("kw") or [])}


def req_kw(m):
    return {p["name"] for p in (m.get("kw") or []) if not p.get("opt")}


def ann_of(p):
    return p["ann"] if p.get("ann") is not None else ["obj"]


def applicable(m, args, kwargs, env):
    """True / False / None(unspecified)."""
    n = len(args)
    if not (req_pos(m) <= n <= max_pos(m)):
        return False
    names = set(kwargs)
    if not names <= kw_names(m):
        return False
    if not req_kw(m) <= names:
        return False
    verdicts = []
    for p, v in zip(m["pos"], args):
        verdicts.append(S.accepts(ann_of(p), v, env))
    for p in m.get("kw") or []:
        if p["name"] in kwargs:
            verdicts.append(S.accepts(ann_of(p), kwargs[p["name"]], env))
    if any(v is False for v in verdicts):
        return False
    if any(v is None for v in verdicts):
        return None
    return True


def sig_key(m):
    """What makes two registrations 'the identical signature' (ovld: types, arity data,
    required names, priority)."""
    return (
        tuple(S_canon(ann_of(p)) for p in m["pos"]),
        tuple((p["name"], S_canon(ann_of(p))) for p in (m.get("kw") or [])),
        req_pos(m),
        max_pos(m),
        tuple(sorted(req_kw(m))),
        m.get("prio", 0),
    )


def S_canon(s):
    import json

    def norm(x):
        # ["cls", "object"] and ["obj"] are the same annotation; unions / intersections / Literals are sets
        if isinstance(x, list):
            if x == ["cls", "object"]:
                return ["obj"]
            if len(x) == 2 and x[0] in ("union", "inter") and isinstance(x[1], list):
                members = []
                for y in (norm(y) for y in x[1]):
                    # nested unions flatten (typing.Union does), duplicates collapse
                    for z in (y[1] if (x[0] == "union" and y[0] == "union") else [y]):
                        if z not in members:
                            members.append(z)
                if len(members) == 1:
                    return members[0]
                return [x[0], sorted(members, key=lambda z: json.dumps(z, sort_keys=True))]
            if len(x) == 2 and x[0] == "lit" and isinstance(x[1], list):
                return ["lit", sorted(x[1], key=lambda z: json.dumps(z))]
            return [norm(y) for y in x]
        return x

    return json.dumps(norm(s), sort_keys=True)


def beats(a, b, n, kwnames, env, seq):
    """Does method a beat method b for a call with n positionals and the given keyword names?
    True / False / None (needs an unspecified comparison)."""
    pa, pb = a.get("prio", 0), b.get("prio", 0)
    if pa > pb:
        return True
    if pa < pb:
        return False
    orders = []
    for i in range(n):
        orders.append(S.order(ann_of(a["pos"][i]), ann_of(b["pos"][i]), env))
    ka = {p["name"]: p for p in (a.get("kw") or [])}
    kb = {p["name"]: p for p in (b.get("kw") or [])}
    for name in sorted(kwnames):
        orders.append(S.order(ann_of(ka[name]), ann_of(kb[name]), env))
    if any(o == S.UNSPEC for o in orders):
        # a definite "no" is still possible: some position strictly MORE or NONE
        if any(o in (S.MORE, S.NONE) for o in orders):
            return False
        return None
    if all(o == S.SAME for o in orders):
        if sig_key(a) == sig_key(b):
            return seq[a["id"]] > seq[b["id"]]
        return False
    return all(o in (S.LESS, S.SAME) for o in orders)


def resolve_among(cands, n, kwnames, env, seq):
    if not cands:
        return ("nomethod",)
    unknown = False
    for a in cands:
        verdicts = [beats(a, b, n, kwnames, env, seq) for b in cands if b is not a]
        if all(v is True for v in verdicts):
            return ("method", a["id"])
        if all(v is not False for v in verdicts):
            unknown = True
    if unknown:
        return ("unspec", "order")
    return ("ambiguous",)


def applicable_set(methods, args, kwargs, env):
    app, unk = [], []
    for m in methods:
        v = applicable(m, args, kwargs, env)
        if v is True:
            app.append(m)
        elif v is None:
            unk.append(m)
    return app, unk


def resolve(methods, args, kwargs, env, seq=None):
    seq = seq or {m["id"]: i for i, m in enumerate(methods)}
    app, unk = applicable_set(methods, args, kwargs, env)
    if unk:
        return ("unspec", "applicability")
    return resolve_among(app, len(args), set(kwargs), env, seq)


def chain(methods, args, kwargs, env, seq=None, limit=50):
    """Successive resolutions with the winner removed each time:
    [("method", id), ..., ("nomethod",)|("ambiguous",)|("unspec",..)]"""
    seq = seq or {m["id"]: i for i, m in enumerate(methods)}
    app, unk = applicable_set(methods, args, kwargs, env)
    if unk:
        return [("unspec", "applicability")]
    out = []
    cands = list(app)
    while len(out) < limit:
        r = resolve_among(cands, len(args), set(kwargs), env, seq)
        out.append(r)
        if r[0] != "method":
            break
        cands = [m for m in cands if m["id"] != r[1]]
    return out
