"""Cooperative scheduler: the harness owns the interleaving of worker threads.

Every *line event* in ovld's source or generated code is a yield point (sys.settrace in each worker).  At a
yield point the worker hands control back to the scheduler and waits for its own semaphore, so exactly one
worker runs at any time and the interleaving is a pure function of the schedule:

    schedule = [n0, n1, n2, ...]   run the current worker for n0 yield points, pre-empt it and switch to the next
                                   runnable worker (round robin), run that one for n1 yield points, ... ; when the
                                   list is exhausted every worker runs to completion in turn.

A worker that blocks on one of ovld's locks would dead-lock this scheme, so locks found on the objects under test
are replaced by CoopLock (a blocked acquirer yields to the scheduler instead of sleeping in C).
"""
import os
import sys
import threading

from . import boot

SRC = os.path.join(boot.SRC, "ovld") + os.sep


_REAL_LOCK = threading.Lock  # the harness' own gates stay real locks while threading.Lock is replaced for the library


def _gate():
    """a closed gate: release() opens it once, acquire() passes and closes it again (a C-level lock is much faster
    than threading.Semaphore; hand-offs strictly alternate, so a binary gate is enough)"""
    g = _REAL_LOCK()
    g.acquire()
    return g


class HarnessStall(Exception):
    """a worker neither finished nor reached a yield point (harness error, never a violation)"""


CURRENT = [None]  # the scheduler that owns the running schedule, if any


class CoopLock:
    """Re-entrant lock handed to the library instead of threading.Lock / RLock while the objects under test are
    created.  Under a running schedule a blocked acquirer yields to the scheduler; outside of one (sequential
    reference runs, probes) there is no contention."""

    def __init__(self, *a, **k):
        self.owner = None
        self.depth = 0

    def acquire(self, blocking=True, timeout=-1):
        me = threading.get_ident()
        spins = 0
        while True:
            if self.owner is None or self.owner == me:
                self.owner = me
                self.depth += 1
                return True
            if not blocking:
                return False
            sched = CURRENT[0]
            if sched is not None and getattr(sched._tls, "worker", None) is not None:
                sched.yield_point(blocked=True)
            else:
                spins += 1
                if spins > 200000:
                    raise HarnessStall("lock never released outside a schedule")
                import time

                time.sleep(0.0001)

    def release(self):
        self.depth -= 1
        if self.depth <= 0:
            self.depth = 0
            self.owner = None

    def __enter__(self):
        return self.acquire()

    def __exit__(self, *a):
        self.release()

    def locked(self):
        return self.owner is not None


class Scheduler:
    def __init__(self, schedule, timeout=20.0):
        self.schedule = list(schedule)
        self.timeout = timeout
        self.workers = []  # dicts: fn, thread, go, done, result, blocked
        self.back = _gate()
        self.trace_log = []  # (worker, file, line, func) of every yield point, in global order
        self.preempted_at = []
        self._tls = threading.local()

    # ---- worker side
    def _global_trace(self, frame, event, arg):
        fn = frame.f_code.co_filename
        if fn.startswith(SRC) or fn.startswith("<ovld:"):
            return self._local_trace
        return None

    def _local_trace(self, frame, event, arg):
        if event == "line":
            w = self._tls.worker
            co = frame.f_code
            self.trace_log.append((w["i"], os.path.basename(co.co_filename) if co.co_filename.startswith(SRC) else "<generated>",
                                   frame.f_lineno, co.co_name))
            self.yield_point()
        return self._local_trace

    def yield_point(self, blocked=False):
        w = self._tls.worker
        if not blocked:
            # hand control back only where the schedule pre-empts this worker; in between it simply keeps running
            # (nobody else runs meanwhile, so the interleaving is the same as with a hand-off at every line)
            q = w["quantum"]
            if q is None:
                return
            w["quantum"] = q - 1
            if q - 1 > 0:
                return
        w["blocked"] = blocked
        self.back.release()
        if not w["go"].acquire(timeout=self.timeout):
            raise HarnessStall("worker not resumed")

    def _run_worker(self, w):
        self._tls.worker = w
        if not w["go"].acquire(timeout=self.timeout):
            return
        sys.settrace(self._global_trace)
        try:
            w["result"] = ("ok", w["fn"]())
        except BaseException as e:  # noqa: BLE001
            w["result"] = ("exc", e)
        finally:
            sys.settrace(None)
            w["done"] = True
            self.back.release()

    # ---- scheduler side
    def add(self, fn):
        w = {"i": len(self.workers), "fn": fn, "go": _gate(), "done": False, "result": None, "blocked": False,
             "quantum": None}
        w["thread"] = threading.Thread(target=self._run_worker, args=(w,), daemon=True)
        self.workers.append(w)

    def run(self):
        for w in self.workers:
            w["thread"].start()
        cur = 0
        budget = list(self.schedule)
        steps_left = budget.pop(0) if budget else None
        n = len(self.workers)
        guard = 0
        while not all(w["done"] for w in self.workers):
            guard += 1
            if guard > 2_000_000:
                raise HarnessStall("schedule did not terminate")
            w = self.workers[cur]
            if w["done"]:
                cur = self._next_runnable(cur)
                continue
            w["quantum"] = steps_left
            w["go"].release()
            if not self.back.acquire(timeout=self.timeout):
                raise HarnessStall(f"worker {cur} neither yielded nor finished")
            if w["done"]:
                if steps_left is not None:
                    # the worker finished before its quantum was used up: the rest of the quantum is void
                    steps_left = budget.pop(0) if budget else None
                cur = self._next_runnable(cur)
                continue
            if w["blocked"]:
                # cannot make progress: run somebody else (if nobody can, it is a genuine dead-lock)
                nxt = self._next_runnable(cur)
                if nxt == cur or all(x["done"] or x["blocked"] for x in self.workers):
                    if all(x["done"] or x["blocked"] for x in self.workers):
                        raise HarnessStall("all workers blocked (dead-lock)")
                cur = nxt
                continue
            if steps_left is not None:
                # the worker used up its quantum: pre-empt it here
                self.preempted_at.append(self.trace_log[-1] if self.trace_log else None)
                cur = self._next_runnable(cur)
                steps_left = budget.pop(0) if budget else None
        for w in self.workers:
            w["thread"].join(timeout=self.timeout)
        return [w["result"] for w in self.workers]

    def _next_runnable(self, cur):
        n = len(self.workers)
        for d in range(1, n + 1):
            j = (cur + d) % n
            if not self.workers[j]["done"]:
                return j
        return cur
