"""Class-hierarchy specs: generation (Hypothesis), enumeration and construction.

A hierarchy spec is JSON:  {"classes": [{"bases": [i, ...], "marks": ["mA"], "abc": bool,
"virt": [j, ...]}, ...]}.  Class i is called K<i>; its bases are earlier classes.  "virt"
(only meaningful when "abc") lists later classes registered as *virtual* subclasses.
Two runtime-checkable protocols PA / PB (structural: method mA / mB) are always available.

The builder *repairs* instead of rejecting: an antichain of bases in descending index order
does not guarantee that C3 linearisation succeeds, so on the MRO TypeError it drops the last
base and retries.  The hierarchy actually built is a deterministic function of the spec.
Ground truth for every class-level relation is Python's own issubclass on the built classes.
"""
import abc
import collections.abc
import itertools
import numbers
from typing import Protocol, runtime_checkable

MARKS = ("mA", "mB")


@runtime_checkable
class PA(Protocol):
    def mA(self): ...


@runtime_checkable
class PB(Protocol):
    def mB(self): ...


@runtime_checkable
class PA2(Protocol):
    """same method set as PA: the two protocols are subclasses of each other"""

    def mA(self): ...


@runtime_checkable
class PLen(Protocol):
    """structurally the same as collections.abc.Sized"""

    def __len__(self): ...


BUILTINS = {
    "object": object,
    "int": int,
    "bool": bool,
    "str": str,
    "float": float,
    "list": list,
    "tuple": tuple,
    "dict": dict,
    "set": set,
    "frozenset": frozenset,
    "bytes": bytes,
    "NoneType": type(None),
    "type": type,
    "complex": complex,
    "Number": numbers.Number,
    "Real": numbers.Real,
    "Integral": numbers.Integral,
    "Iterable": collections.abc.Iterable,
    "Sequence": collections.abc.Sequence,
    "Collection": collections.abc.Collection,
    "Mapping": collections.abc.Mapping,
    "Sized": collections.abc.Sized,
    "Hashable": collections.abc.Hashable,
    "PA": PA,
    "PB": PB,
    "PA2": PA2,
    "PLen": PLen,
    "ABCMeta": abc.ABCMeta,
}


def _mk_mark(name):
    def meth(self):
        return name

    meth.__name__ = name
    return meth


def build(hspec):
    """-> env: dict name -> class (K0..Kn-1 plus BUILTINS)."""
    env = dict(BUILTINS)
    classes = []
    for i, c in enumerate(hspec["classes"]):
        bases = [classes[j] for j in sorted(set(c.get("bases", [])), reverse=True) if j < i]
        # keep an antichain: drop bases that are superclasses of another chosen base
        bases = [b for b in bases if not any(o is not b and issubclass(o, b) for o in bases)]
        ns = {m: _mk_mark(m) for m in c.get("marks", []) if m in MARKS}
        ns["__module__"] = "verifhier"
        ns["__repr__"] = lambda self: f"<{type(self).__name__}>"
        while True:
            try:
                if c.get("abc") and not bases:
                    cls = abc.ABCMeta(f"K{i}", (), ns)
                elif c.get("abc"):
                    cls = abc.ABCMeta(f"K{i}", tuple(bases), ns)
                else:
                    cls = type(bases[0])(f"K{i}", tuple(bases), ns) if bases else type(
                        f"K{i}", (), ns
                    )
                break
            except TypeError:
                if not bases:
                    raise
                bases = bases[:-1]
        classes.append(cls)
        env[f"K{i}"] = cls
    for i, c in enumerate(hspec["classes"]):
        if c.get("abc"):
            for j in c.get("virt", []):
                if i < j < len(classes) and not issubclass(classes[j], classes[i]):
                    try:
                        classes[i].register(classes[j])
                    except (RuntimeError, TypeError):
                        pass
    env["__classes__"] = classes
    return env


def class_names(hspec):
    return [f"K{i}" for i in range(len(hspec["classes"]))]


def has_mi(hspec):
    return any(len(set(c.get("bases", []))) >= 2 for c in hspec["classes"])


# ------------------------------------------------------------------ enumeration


def all_dags(n):
    """Every hierarchy on n plain classes whose base lists are antichains (after repair
    duplicates may occur; the caller may dedupe on the built issubclass table)."""

    def rec(i, acc):
        if i == n:
            yield {"classes": [dict(bases=list(b)) for b in acc]}
            return
        for r in range(0, i + 1):
            for bases in itertools.combinations(range(i), r):
                yield from rec(i + 1, acc + [bases])

    seen = set()
    for h in rec(0, []):
        env = build(h)
        cl = env["__classes__"]
        key = tuple(tuple(issubclass(a, b) for b in cl) for a in cl)
        if key not in seen:
            seen.add(key)
            yield h


# ------------------------------------------------------------------ hypothesis


def hierarchies(min_classes=1, max_classes=6, abcs=True, marks=True):
    from hypothesis import strategies as st

    @st.composite
    def _h(draw):
        n = draw(st.integers(min_classes, max_classes))
        classes = []
        for i in range(n):
            c = {}
            if i:
                k = draw(st.sampled_from([0, 1, 1, 1, 2, 2, 3]))
                c["bases"] = sorted(
                    set(draw(st.lists(st.integers(0, i - 1), min_size=min(k, i), max_size=min(k, i))))
                )
            else:
                c["bases"] = []
            if marks and draw(st.integers(0, 3)) == 0:
                c["marks"] = [draw(st.sampled_from(MARKS))]
            if abcs and draw(st.integers(0, 5)) == 0:
                c["abc"] = True
                if i + 1 < n and draw(st.booleans()):
                    c["virt"] = [draw(st.integers(i + 1, n - 1))]
            classes.append(c)
        return {"classes": classes}

    return _h()
