"""Process set-up shared by every check.

* puts the source tree under test ($VERIF_REPO, default /repo) first on sys.path and
  asserts that `ovld` is really imported from there (ovld is pure Python, so "rebuild
  from the working tree" == a fresh interpreter importing the current sources);
* makes vendored third-party deps (/verif/.deps, filled by setup_cmd if needed) importable;
* parses tier / seed.
"""
import os
import sys

VERIF = os.path.dirname(os.path.dirname(os.path.abspath(__file__)))
REPO = os.path.abspath(os.environ.get("VERIF_REPO", "/repo"))
SRC = os.path.join(REPO, "src")

if SRC not in sys.path[:1]:
    sys.path.insert(0, SRC)
_deps = os.path.join(VERIF, ".deps")
if os.path.isdir(_deps) and _deps not in sys.path:
    sys.path.append(_deps)


def _ensure_hypothesis():
    """the checks install their one third-party dependency themselves (offline wheelhouse) if it is missing"""
    try:
        import hypothesis  # noqa: F401
        return
    except ImportError:
        pass
    import subprocess

    os.makedirs(_deps, exist_ok=True)
    subprocess.run([sys.executable, "-m", "pip", "install", "--quiet", "--no-index", "--find-links", "/opt/veriftools/wheels",
                    "--target", _deps, "hypothesis"], check=False)
    if _deps not in sys.path:
        sys.path.append(_deps)


_ensure_hypothesis()
sys.setrecursionlimit(10000)

import ovld  # noqa: E402

if not os.path.abspath(ovld.__file__).startswith(SRC + os.sep):
    sys.stderr.write(
        f"HARNESS ERROR: ovld imported from {ovld.__file__}, expected under {SRC}\n"
    )
    sys.exit(2)


def seed_from_env(default=1):
    try:
        return int(os.environ.get("VERIF_SEED", str(default)))
    except ValueError:
        return default


def tier_from_env(default="quick"):
    t = os.environ.get("VERIF_TIER", default)
    return t if t in ("quick", "thorough") else default
