"""Shared driver: sharding, Hypothesis plumbing, known-findings protocol, evidence.

A check module provides an object with:

    id            "C02"
    level         evidence level ("exploration" | "fault_enumeration")
    rule          text: how cases are generated and what makes one non-trivial/distinct
    assumptions   list[str]
    tasks(tier, seed) -> list[dict]      work units (picklable dicts, each with key "kind")
    run_task(task) -> Stats              executed in a worker process
    run_case(spec) -> CaseResult         executes ONE case spec (the replay unit)

Exit codes: 0 property held on everything explored (KNOWN-FINDING lines allowed),
1 violation(s) found (VIOLATION lines printed), 2 harness error.
"""
import argparse
import hashlib
import importlib
import json
import multiprocessing as mp
import os
import sys
import time
import traceback
from collections import Counter

from . import boot

VERIF = boot.VERIF
KNOWN_FILE = os.path.join(VERIF, "known_findings.json")
# evidence/ and replay/ go to /verif unless VERIF_OUT redirects them (runs against patched scratch copies of
# the repository must not overwrite the evidence that stems from /repo itself)
OUT = os.environ.get("VERIF_OUT") or VERIF


# --------------------------------------------------------------------------- data


def canon(obj):
    return json.dumps(obj, sort_keys=True, separators=(",", ":"), default=repr)


def h64(obj):
    return hashlib.md5(canon(obj).encode()).hexdigest()[:16]


class Disagreement(Exception):
    """An observed difference between the code and the oracle for one case."""

    def __init__(self, message, signature=None, spec=None):
        super().__init__(message)
        self.message = message
        self.signature = signature  # set by the check's classifier: a finding key or None
        self.spec = spec


class CaseResult:
    __slots__ = ("labels", "nontrivial", "key", "disagreements", "skipped")

    def __init__(self):
        self.labels = []
        self.nontrivial = False
        self.key = None  # distinctness key (defaults to the spec hash)
        self.disagreements = []  # list[Disagreement]
        self.skipped = []  # list[str]: oracle branches skipped as unspecified

    def label(self, *names):
        self.labels.extend(names)

    def fail(self, message, signature=None):
        self.disagreements.append(Disagreement(message, signature))


class Stats:
    def __init__(self):
        self.evaluations = 0
        self.labels = Counter()
        self.nontrivial = set()
        self.samples = []
        self.known = Counter()
        self.skipped = Counter()
        self.failures = []  # dicts: spec, message, signature
        self.extra = {}
        self.exhaustive = None

    def add_case(self, spec, res, sample_cap=3):
        self.evaluations += 1
        for lab in res.labels:
            self.labels[lab] += 1
        for s in res.skipped:
            self.skipped[s] += 1
        if res.nontrivial:
            self.nontrivial.add(res.key if res.key is not None else h64(spec))
            if len(self.samples) < sample_cap:
                self.samples.append(spec)

    def to_dict(self):
        return {
            "evaluations": self.evaluations,
            "labels": dict(self.labels),
            "nontrivial": sorted(self.nontrivial),
            "samples": self.samples,
            "known": dict(self.known),
            "skipped": dict(self.skipped),
            "failures": self.failures,
            "extra": self.extra,
            "exhaustive": self.exhaustive,
        }


def merge(dicts):
    out = Stats()
    exh = []
    for d in dicts:
        out.evaluations += d["evaluations"]
        out.labels.update(d["labels"])
        out.nontrivial.update(d["nontrivial"])
        out.known.update(d["known"])
        out.skipped.update(d["skipped"])
        out.failures.extend(d["failures"])
        if len(out.samples) < 6:
            out.samples.extend(d["samples"][: 6 - len(out.samples)])
        for k, v in d["extra"].items():
            if isinstance(v, (int, float)) and isinstance(out.extra.get(k, 0), (int, float)):
                out.extra[k] = out.extra.get(k, 0) + v
            else:
                out.extra.setdefault(k, v)
        if d["exhaustive"] is not None:
            exh.append(d["exhaustive"])
    out.exhaustive = (all(exh) if exh else None)
    return out


# --------------------------------------------------------------------------- known findings


def load_known(prop_id):
    """Entries of known_findings.json for this property.

    entry: {"id": "F5", "property": "C12", "status": "open"|"fixed", "signature": "...",
            "what": "...", "replay": <case spec>, "commit": "..."}  (never written at run time)
    """
    if not os.path.exists(KNOWN_FILE):
        return []
    with open(KNOWN_FILE) as f:
        data = json.load(f)
    return [e for e in data.get("findings", [])
            if e.get("property") == prop_id or prop_id in (e.get("properties") or [])]


def entry_signatures(e):
    out = set(e.get("signatures") or [])
    if e.get("signature"):
        out.add(e["signature"])
    return out


def open_signatures(prop_id):
    out = set()
    for e in load_known(prop_id):
        if e.get("status") == "open":
            out |= entry_signatures(e)
    return out


# --------------------------------------------------------------------------- hypothesis plumbing


def run_given(stats, strategy, run_case, seed, max_examples, open_sigs, shrink=True,
              shrink_budget_s=90.0, sample_cap=3):
    """Drive `run_case(spec)` over specs drawn from `strategy`.

    Disagreements whose signature is an open known finding are counted and the case passes
    (so the search continues behind a known defect); anything else makes the case fail,
    Hypothesis shrinks it, and the shrunk spec is recorded in stats.failures.
    Shrinking is cut short after `shrink_budget_s` (affects minimality only, never the verdict).
    """
    import warnings

    import hypothesis
    from hypothesis import HealthCheck, Phase, given, settings

    warnings.filterwarnings("ignore", category=hypothesis.errors.HypothesisWarning)

    state = {"last": None, "first_fail_t": None}

    def body(spec):
        if state["first_fail_t"] is not None and (
            time.time() - state["first_fail_t"] > shrink_budget_s
        ):
            # budget for shrinking used up: only the recorded failing spec keeps failing
            if state["last"] is not None and canon(spec) == canon(state["last"]["spec"]):
                raise Disagreement(state["last"]["message"], state["last"]["signature"])
            return
        res = run_case(spec)
        if state["first_fail_t"] is None:
            stats.add_case(spec, res, sample_cap)
        bad = None
        for d in res.disagreements:
            if d.signature is not None and d.signature in open_sigs:
                if state["first_fail_t"] is None:
                    stats.known[d.signature] += 1
            elif bad is None:
                bad = d
        if bad is not None:
            if state["first_fail_t"] is None:
                state["first_fail_t"] = time.time()
            state["last"] = {"spec": spec, "message": bad.message, "signature": bad.signature}
            raise bad

    phases = [Phase.generate] + ([Phase.shrink] if shrink else [])
    test = settings(
        max_examples=max_examples,
        database=None,
        deadline=None,
        derandomize=False,
        report_multiple_bugs=False,
        phases=phases,
        suppress_health_check=list(HealthCheck),
        print_blob=False,
    )(hypothesis.seed(seed)(given(strategy)(body)))
    try:
        test()
    except Disagreement:
        stats.failures.append(state["last"])
    except hypothesis.errors.Flaky:
        # the case failed once and passed when Hypothesis replayed it: the code under test behaved
        # non-deterministically (e.g. set-iteration / address order).  Still a disagreement we saw.
        if state["last"] is None:
            raise
        f = dict(state["last"])
        f["message"] = "[not reproducible on immediate replay - order/address dependent] " + f["message"]
        stats.failures.append(f)
    except hypothesis.errors.HypothesisException:
        raise
    except BaseException:
        if state["last"] is not None:
            stats.failures.append(state["last"])
        else:
            raise
    return stats


def run_enumerated(stats, specs, run_case, open_sigs, sample_cap=3, max_failures=3):
    """Same protocol for an explicitly enumerated list/iterator of specs (no shrinking)."""
    for spec in specs:
        res = run_case(spec)
        stats.add_case(spec, res, sample_cap)
        for d in res.disagreements:
            if d.signature is not None and d.signature in open_sigs:
                stats.known[d.signature] += 1
            elif len(stats.failures) < max_failures:
                stats.failures.append(
                    {"spec": spec, "message": d.message, "signature": d.signature}
                )
    return stats


# --------------------------------------------------------------------------- worker entry


def _worker(args):
    modname, task = args
    try:
        mod = importlib.import_module(modname)
        st = mod.CHECK.run_task(task)
        return ("ok", st.to_dict())
    except BaseException:
        return ("err", f"task {task!r}\n{traceback.format_exc()}")


def _pool(jobs):
    ctx = mp.get_context("fork")
    return ctx.Pool(jobs, maxtasksperchild=4)


# --------------------------------------------------------------------------- main


def write_replay(prop_id, failure):
    d = os.path.join(OUT, "replay", prop_id)
    os.makedirs(d, exist_ok=True)
    path = os.path.join(d, f"{h64(failure['spec'])}.json")
    with open(path, "w") as f:
        json.dump(
            {
                "property": prop_id,
                "message": failure["message"],
                "signature": failure.get("signature"),
                "spec": failure["spec"],
            },
            f,
            indent=1,
            default=repr,
        )
    return path


def write_evidence(check, tier, seed, stats, wall, violations, extra_cov=None):
    cov = {
        "evaluations": int(stats.evaluations),
        "distinct_nontrivial": len(stats.nontrivial),
        "rule": check.rule,
        "samples": stats.samples[:6] or ["<no non-trivial sample captured>"],
        "label_histogram": dict(sorted(stats.labels.items())),
        "skipped_as_unspecified": dict(sorted(stats.skipped.items())),
        "known_finding_hits": dict(sorted(stats.known.items())),
    }
    if stats.exhaustive is not None:
        cov["exhaustive"] = bool(stats.exhaustive)
    cov.update(stats.extra)
    if extra_cov:
        cov.update(extra_cov)
    ev = {
        "property_id": check.id,
        "tier": tier,
        "seed": int(seed),
        "level": check.level,
        "coverage": cov,
        "assumptions": list(getattr(check, "assumptions", [])),
        "wall_s": round(wall, 2),
        "violations": int(violations),
    }
    os.makedirs(os.path.join(OUT, "evidence"), exist_ok=True)
    path = os.path.join(OUT, "evidence", f"{check.id}.json")
    tmp = path + ".tmp"
    with open(tmp, "w") as f:
        json.dump(ev, f, indent=1, default=repr)
    os.replace(tmp, path)
    return path


def main(modname):
    # One fixed string-hash seed per run (set iteration order of str-keyed sets must not vary between
    # runs of the same VERIF_SEED); C06 varies it on purpose in subprocesses.
    if os.environ.get("PYTHONHASHSEED") is None:
        os.environ["PYTHONHASHSEED"] = "0"
        os.execv(sys.executable, [sys.executable, "-m", modname] + sys.argv[1:])
    mod = importlib.import_module(modname)
    check = mod.CHECK
    ap = argparse.ArgumentParser()
    ap.add_argument("--tier", default=boot.tier_from_env())
    ap.add_argument("--seed", type=int, default=boot.seed_from_env())
    ap.add_argument("--replay", default=None)
    ap.add_argument("--jobs", type=int, default=int(os.environ.get("VERIF_JOBS", "16")))
    ap.add_argument("--only", default=None, help="run only tasks of this kind (debugging)")
    ns = ap.parse_args()
    os.chdir(VERIF)

    try:
        open_sigs = open_signatures(check.id)
        if ns.replay:
            with open(ns.replay) as f:
                data = json.load(f)
            spec = data["spec"] if isinstance(data, dict) and "spec" in data else data
            res = check.run_case(spec)
            bad = [d for d in res.disagreements if d.signature not in open_sigs]
            for d in res.disagreements:
                tag = "FAIL" if d in bad else "known"
                print(f"[{tag}] {d.signature}: {d.message}")
            if bad:
                print(f"VIOLATION property={check.id} replay={ns.replay}")
                return 1
            print("replay: no violation")
            return 0

        t0 = time.time()
        violations = []
        # (1) stored reproducers of listed findings
        for e in load_known(check.id):
            if e.get("replay") is None:
                continue
            owner = e.get("replay_property") or e.get("property") or (e.get("properties") or [None])[0]
            if owner != check.id:
                continue  # the stored reproducer is a case spec of another check
            res = check.run_case(e["replay"])
            hit = [d for d in res.disagreements]
            if e.get("status") == "open":
                if any(d.signature in entry_signatures(e) for d in hit):
                    print(f"KNOWN-FINDING: property={check.id} {e['id']} {e['what']}")
                else:
                    print(
                        f"note: listed finding {e['id']} no longer reproduces on this tree"
                        + (f" (saw {[d.signature for d in hit]})" if hit else "")
                    )
                for d in hit:
                    if d.signature not in open_sigs:
                        violations.append(
                            {"spec": e["replay"], "message": d.message, "signature": d.signature}
                        )
            else:  # fixed: suppresses nothing, must pass now
                for d in hit:
                    if d.signature not in open_sigs:
                        violations.append(
                            {
                                "spec": e["replay"],
                                "message": f"regression of fixed finding {e['id']}: {d.message}",
                                "signature": d.signature,
                            }
                        )
        # (2) regression corpus of the check (hand-kept minimal cases), if any
        for spec in getattr(check, "corpus", lambda: [])():
            res = check.run_case(spec)
            for d in res.disagreements:
                if d.signature not in open_sigs:
                    violations.append({"spec": spec, "message": d.message, "signature": d.signature})

        # (3) generated search
        tasks = check.tasks(ns.tier, ns.seed)
        if ns.only:
            tasks = [t for t in tasks if t.get("kind") == ns.only]
        results = []
        if ns.jobs <= 1 or len(tasks) <= 1:
            for t in tasks:
                r = _worker((modname, t))
                if r[0] == "err":
                    sys.stderr.write("HARNESS ERROR in " + r[1] + "\n")
                    return 2
                results.append(r[1])
        else:
            # a worker that dies (fatal interpreter error, kill) loses its task and imap would wait for ever: every task
            # result has to arrive within a generous limit, otherwise the run is a harness error, never a silent hang
            limit = float(os.environ.get("VERIF_TASK_TIMEOUT", "1500" if ns.tier == "quick" else "10800"))
            with _pool(min(ns.jobs, len(tasks))) as pool:
                it = pool.imap_unordered(_worker, [(modname, t) for t in tasks], chunksize=1)
                for _ in tasks:
                    try:
                        r = it.next(timeout=limit)
                    except mp.TimeoutError:
                        sys.stderr.write(f"HARNESS ERROR: no task finished within {limit:.0f} s (a worker process may have died)\n")
                        pool.terminate()
                        return 2
                    if r[0] == "err":
                        sys.stderr.write("HARNESS ERROR in " + r[1] + "\n")
                        pool.terminate()
                        return 2
                    results.append(r[1])
        stats = merge(results)
        violations.extend(stats.failures)
        wall = time.time() - t0

        seen = set()
        uniq = []
        for v in violations:
            k = h64(v["spec"])
            if k not in seen:
                seen.add(k)
                uniq.append(v)
        extra = getattr(check, "extra_coverage", lambda tier: {})(ns.tier)
        write_evidence(check, ns.tier, ns.seed, stats, wall, len(uniq), extra)
        print(
            f"{check.id} tier={ns.tier} seed={ns.seed}: evaluations={stats.evaluations} "
            f"distinct_nontrivial={len(stats.nontrivial)} known_hits={dict(stats.known)} "
            f"skipped={sum(stats.skipped.values())} wall={wall:.1f}s"
        )
        if uniq:
            for v in uniq[:10]:
                path = write_replay(check.id, v)
                print(f"  {v.get('signature')}: {v['message'][:400]}")
                print(f"VIOLATION property={check.id} replay={os.path.relpath(path, VERIF) if OUT == VERIF else path}")
            return 1
        return 0
    except SystemExit:
        raise
    except BaseException:
        sys.stderr.write("HARNESS ERROR\n" + traceback.format_exc())
        return 2
