"""The few non-top-level names of ovld the harness needs, looked up defensively (a refactoring that moves a helper to
another module must not turn into a harness error)."""
import importlib
import pkgutil

from . import boot  # noqa: F401

import ovld


def _find(name, preferred):
    for modname in preferred:
        try:
            mod = importlib.import_module(modname)
        except Exception:  # noqa: BLE001
            continue
        if hasattr(mod, name):
            return getattr(mod, name)
    for info in pkgutil.iter_modules(ovld.__path__):
        try:
            mod = importlib.import_module("ovld." + info.name)
        except Exception:  # noqa: BLE001
            continue
        if hasattr(mod, name):
            return getattr(mod, name)
    raise ImportError(f"ovld no longer provides {name!r} anywhere")


typeorder = ovld.typeorder
subclasscheck = ovld.subclasscheck
Order = _find("Order", ["ovld.mro", "ovld"])
normalize_type = _find("normalize_type", ["ovld.types", "ovld.core", "ovld"])
UsageError = _find("UsageError", ["ovld.utils", "ovld"])
Signature = _find("Signature", ["ovld.core", "ovld"])
MultiTypeMap = ovld.MultiTypeMap
