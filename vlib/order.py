"""Harness-side control of iteration order inside ovld (no source hook).

ovld.typemap creates its sets through the *name* `set` and calls `sort_types` through its module
namespace.  Rebinding those names at run time lets a case spec choose the iteration order:

    with controlled_order(salt):   # salt: int; 0 = natural order (no shadowing)
        ... build and call overloaded functions ...

Real sets may iterate in any order (hash seed, object addresses), so every order produced here is one the
unmodified library can meet in some process.  Elements get a stable serial number on first sight; the
iteration order is the order of hash((serial, salt)).
"""
import contextlib
import hashlib

_serial = {}


def _key(x, salt):
    k = id(x)
    n = _serial.get(k)
    if n is None:
        n = _serial[k] = len(_serial)
    return hashlib.md5(f"{n}:{salt}".encode()).digest()


def make_permset(salt):
    class PermSet(set):
        __slots__ = ()

        def __iter__(self):
            return iter(sorted(set.__iter__(self), key=lambda x: _key(x, salt)))

    PermSet.__name__ = "set"
    return PermSet


@contextlib.contextmanager
def controlled_order(salt):
    import ovld.typemap as tm

    if not salt or not hasattr(tm, "sort_types"):
        # natural order; also the fallback if a refactoring removed the names this controller rebinds (the
        # black-box configurations - registration order, subprocess hash seeds - still run)
        yield
        return
    _serial.clear()
    had_set = "set" in tm.__dict__
    old_set = tm.__dict__.get("set")
    old_sort = tm.sort_types
    PermSet = make_permset(salt)

    def sort_types(cls, avail):
        avail = sorted(avail, key=lambda x: _key(x, salt))
        for group in old_sort(cls, avail):
            yield tuple(sorted(group, key=lambda x: _key(x, salt + 1)))

    tm.set = PermSet
    tm.sort_types = sort_types
    try:
        yield
    finally:
        tm.sort_types = old_sort
        if had_set:
            tm.set = old_set
        else:
            del tm.set
