"""Shared Hypothesis strategies: annotation specs, value corpora, method sets, delegation scripts.

Everything drawn here is JSON (case specs); nothing calls an RNG of its own.
Generators are *sound first*: they only build method sets ovld is documented to accept
(names never positional in one method and keyword-only in another, uniform position names or
positional-only, all-or-none self, no *args/**kwargs), and predicates total on their bound.
"""
from hypothesis import strategies as st

from . import hier as H
from . import spec as S

NUM_BOUNDS = ["int", "float", "bool", "Number", "Real"]
SIZED_BOUNDS = ["list", "tuple", "str", "dict"]
LIT_POOL = [0, 1, 2, 3, "a", "z", "ab", True, False, ["none", None], ["float", 1.0], ["float", 2.5], -1]


def bounds_for(pid, knames):
    dom = S.PRED_DOMAIN[pid]
    if dom == "num":
        return NUM_BOUNDS
    if dom == "int":
        return ["int", "bool", "Integral"]
    if dom == "sized":
        return SIZED_BOUNDS
    if dom == "kcls":
        return list(knames) or ["int"]
    return list(knames) + ["object", "int", "str", "Number", "list", "tuple"]


def value_corpus(knames):
    """Value specs covering every bound the annotation generator can produce and both truth
    values of every predicate."""
    vals = [["inst", n] for n in knames]
    vals += [["int", v] for v in (-1, 0, 1, 2, 3, 150)]
    vals += [["bool", True], ["bool", False], ["float", 0.0], ["float", 1.0], ["float", 2.5], ["float", -3.5]]
    vals += [["str", s] for s in ("", "a", "z", "ab", "hello", "hello world")]
    vals += [["ustr", "a"], ["ustr", "hello"]]  # in-bound but unhashable values
    vals += [["none"]]
    vals += [["list", []], ["list", [["int", 1]]], ["list", [["str", "a"]]], ["list", [["int", 1], ["str", "a"]]]]
    if knames:
        vals += [["list", [["inst", knames[0]]]], ["tuple", [["inst", knames[-1]]]]]
    vals += [["tuple", []], ["tuple", [["int", 1]]], ["tuple", [["str", "a"]]],
             ["tuple", [["int", 1], ["str", "a"]]], ["tuple", [["int", 1], ["int", 2]]]]
    vals += [["dict", []], ["dict", [[["str", "a"], ["int", 1]]]], ["dict", [[["int", 1], ["str", "a"]]]],
             ["dict", [[["str", "a"], ["int", 1]], [["int", 1], ["str", "a"]]]], ["float", 150.5]]
    vals += [["inst", "object"]]
    return vals


@st.composite
def static_ann(draw, knames, depth=1, extra=("object", "int", "str", "PA", "PB", "Number"), kinds=None):
    names = list(knames) * 3 + list(extra)
    k = draw(st.sampled_from(kinds or (["cls"] * 8 + ["obj", "union", "inter", "exactly", "strict", "hasmethod"])))
    if depth <= 0 and k in ("union", "inter"):
        k = "cls"
    if k == "cls":
        return ["cls", draw(st.sampled_from(names))]
    if k == "obj":
        return ["obj"]
    if k in ("union", "inter"):
        n = draw(st.integers(2, 3))
        return [k, [draw(static_ann(knames, depth - 1, extra, kinds)) for _ in range(n)]]
    if k in ("exactly", "strict"):
        return [k, draw(st.sampled_from(list(knames) + ["int", "str"]))]
    return ["hasmethod", draw(st.sampled_from(["mA", "mB", "__len__", "keys"]))]


@st.composite
def dependent_ann(draw, knames, kinds=None):
    kinds = kinds or ["dep"] * 5 + ["lit"] * 4 + ["tup", "listof", "seqof", "mapof", "regexp",
                                                 "startswith", "endswith", "haskey", "dictof", "collof"]
    k = draw(st.sampled_from(kinds))
    if k in ("lit", "regexp", "startswith") and draw(st.integers(0, 11)) == 0:
        # a built-in value type under a bound that is itself value-dependent:
        # Dependent[Dependent[str, short], Regexp['^a']], Dependent[Dependent[int, even], Literal[1, 2]]
        if k == "lit":
            return ["rebound", ["dep", ["cls", "int"], draw(st.sampled_from(["even", "pos", "big"]))],
                    ["lit", draw(st.lists(st.sampled_from([0, 1, 2, 3, -1]), min_size=1, max_size=3, unique=True))]]
        inner = ["regexp", draw(st.sampled_from(["^h", "a"]))] if k == "regexp" else ["startswith", draw(st.sampled_from(["h", "a"]))]
        return ["rebound", ["dep", ["cls", "str"], draw(st.sampled_from(["short", "len2", "truthy"]))], inner]
    if k == "dep":
        pid = draw(st.sampled_from(sorted(S.PRED_IMPL)))
        b = draw(st.sampled_from(bounds_for(pid, knames)))
        bound = ["cls", b] if b != "object" else ["obj"]
        if draw(st.integers(0, 11)) == 0:
            # a union of classes as the bound
            pair = {"num": ["int", "float"], "sized": ["list", "tuple"]}.get(S.PRED_DOMAIN[pid])
            if pair:
                return ["dep", ["union", [["cls", pair[0]], ["cls", pair[1]]]], pid]
        if draw(st.integers(0, 9)) == 0:
            # the bound is itself a value-dependent type: Dependent[Dependent[int, pos], even]
            same_domain = sorted(q for q in S.PRED_IMPL if S.PRED_DOMAIN[q] == S.PRED_DOMAIN[pid] and q != pid)
            if same_domain:
                bound = ["dep", bound, draw(st.sampled_from(same_domain))]
        return ["dep", bound, pid]
    if k == "lit":
        n = draw(st.sampled_from([1, 1, 1, 2, 2, 3]))
        vals = draw(st.lists(st.sampled_from(LIT_POOL), min_size=n, max_size=n, unique_by=repr))
        return ["lit", vals]
    elem = st.sampled_from([["cls", "int"], ["cls", "str"], ["obj"]] + [["cls", n] for n in knames[:2]])
    if k == "tup":
        return ["tup", draw(st.lists(elem, min_size=0, max_size=2))]
    if k in ("listof", "seqof", "collof"):
        return [k, draw(elem)]
    if k in ("mapof", "dictof"):
        return [k, draw(elem), draw(elem)]
    if k == "regexp":
        return ["regexp", draw(st.sampled_from(["^h", "a", "o$", "^$"]))]
    if k == "startswith":
        return ["startswith", draw(st.sampled_from(["h", "a", ""]))]
    if k == "endswith":
        return ["endswith", draw(st.sampled_from(["o", "b", "d"]))]
    return ["haskey", draw(st.lists(st.sampled_from(["a", 1]), min_size=1, max_size=2, unique=True))]


@st.composite
def any_ann(draw, knames, p_dep=0.3, depth=1):
    if draw(st.floats(0, 1)) < p_dep:
        if draw(st.integers(0, 7)) == 0:
            return draw(nested_mixed_ann(knames))
        return draw(dependent_ann(knames))
    return draw(static_ann(knames, depth))


@st.composite
def nested_mixed_ann(draw, knames):
    """& / | combinations, up to depth 2, whose members mix classes and value-dependent types of different bounds"""
    simple_dep = dependent_ann(knames, kinds=["dep"] * 3 + ["lit"] * 3 + ["startswith", "endswith", "haskey"])
    leaf = st.one_of(simple_dep, simple_dep, st.sampled_from([["cls", n] for n in list(knames)[:3]] + [["cls", "int"], ["cls", "str"]]),
                     # class-level special types next to value-dependent members
                     st.sampled_from([["exactly", "int"], ["strict", "int"], ["hasmethod", "mA"], ["hasmethod", "__len__"]]
                                     + [["exactly", n] for n in list(knames)[:2]]))
    inner = st.tuples(st.sampled_from(["union", "inter"]), st.lists(leaf, min_size=2, max_size=2, unique_by=repr)).map(list)
    op = draw(st.sampled_from(["union", "inter"]))
    members = draw(st.lists(st.one_of(leaf, inner), min_size=2, max_size=3, unique_by=repr))
    if not any(S.is_dependent_spec(m) for m in members):
        members[0] = draw(simple_dep)
    return [op, members]


@st.composite
def sites_for(draw, arities, kwpool, host, allow_next=True, max_sites=2, own=None):
    """Call sites of one method body."""
    out = []
    for _ in range(draw(st.sampled_from([0, 1, 1, 2, 2][: 2 * max_sites + 1]))):
        fn = draw(st.sampled_from(["recurse", "recurse", "call_next", "call_next"]
                                  + (["next"] if allow_next else [])))  # f.next(...) / self.f.next(...)
        if own is not None and draw(st.integers(0, 3)):
            # the method's own shape: a same-arguments delegation stays well-formed
            npos = len(own["pos"])
            kws = [p["name"] for p in own.get("kw") or [] if not p.get("opt") or draw(st.booleans())]
        else:
            npos = draw(st.sampled_from(sorted(arities)))
            kws = []
            if kwpool and draw(st.integers(0, 2)) == 0:
                kws = draw(st.lists(st.sampled_from(kwpool), min_size=1, max_size=2, unique=True))
        if fn == "recurse" and any(o["fn"] == "next" for o in out):
            fn = "call_next"
        if fn == "next" and any(o["fn"] == "recurse" for o in out):
            fn = "call_next"
        site = {"fn": fn, "npos": npos, "kws": sorted(kws)}
        if len(site["kws"]) >= 2 and draw(st.booleans()):
            site["kwrev"] = True  # the same keywords, written in the opposite order
        if fn != "next" and draw(st.integers(0, 5)) == 0:
            site["star"] = True  # recurse(*args, **kwargs): the run-time lookup path of the rewriter
        out.append(site)
    # a body uses at most one *kind* of re-entry name besides call_next (the library rewrites only
    # the first detected recurse-like name; mixing `recurse` and the function's own name is a
    # separately recorded finding, kept out of unrelated checks)
    return out


@st.composite
def method_sets(draw, knames, ann_strategy, max_methods=5, max_pos=3, with_kw=True, with_opt=True,
                hosts=("func", "func", "attr", "mc"), with_sites=True, prios=(0, 0, 0, 1, -1, 2),
                allow_zero=True, kw_ann=None, catchall=True, kwnames=("k0", "k1")):
    host = draw(st.sampled_from(list(hosts)))
    nm = draw(st.integers(1, max_methods))
    strict = draw(st.integers(0, 3)) == 0  # positional-only regime with per-method names
    kwpool = list(kwnames) if (with_kw and draw(st.integers(0, 2)) == 0) else []
    base_ar = draw(st.integers(1, max_pos))
    methods = []
    for i in range(nm):
        lo = 0 if allow_zero else 1
        ar = base_ar if draw(st.integers(0, 3)) else draw(st.integers(lo, max_pos))
        pos = []
        seen_opt = False
        for j in range(ar):
            opt = with_opt and (seen_opt or draw(st.integers(0, 5)) == 0)
            seen_opt = seen_opt or opt
            p = {"name": f"q{i}_{j}" if strict else f"a{j}", "ann": draw(ann_strategy), "opt": opt}
            if strict:
                p["posonly"] = True
            pos.append(p)
        kw = []
        for k in kwpool:
            if draw(st.integers(0, 1)) == 0:
                kw.append({"name": k, "ann": draw(kw_ann or ann_strategy),
                           "opt": with_opt and draw(st.integers(0, 2)) == 0})
        methods.append({"id": i, "pos": pos, "kw": kw, "prio": draw(st.sampled_from(list(prios)))})
    if catchall and draw(st.integers(0, 1)):
        # a general fallback (and sometimes a repeated signature) so that call_next has somewhere to go
        src = draw(st.sampled_from(methods))
        m2 = {"id": len(methods), "prio": draw(st.sampled_from([0, 0, -1])), "kw": [dict(p) for p in src["kw"]],
              "pos": [dict(p, ann=(p["ann"] if draw(st.integers(0, 3)) == 0 else ["obj"])) for p in src["pos"]]}
        if strict:
            for j, p in enumerate(m2["pos"]):
                p["name"] = f"q{m2['id']}_{j}"
        methods.append(m2)
    arities = {len(m["pos"]) for m in methods} or {1}
    if with_sites:
        for m in methods:
            m["sites"] = draw(sites_for(arities, kwpool, host, own=m))
    return {"methods": methods, "host": host, "kwpool": kwpool}


@st.composite
def scripts(draw, corpus, max_len=5):
    n = draw(st.sampled_from([0, 1, 1, 2, 3, max_len]))
    out = []
    for _ in range(n):
        k = draw(st.sampled_from(["site", "site", "site", "site", "site", "ret", "raise"]))
        if k == "site":
            if draw(st.integers(0, 2)):
                out.append(["site", draw(st.integers(0, 3)), "same"])
            else:
                vals = draw(st.lists(st.sampled_from(corpus), min_size=1, max_size=3))
                out.append(["site", draw(st.integers(0, 3)), vals, {}])
        else:
            out.append([k])
    return out


@st.composite
def calls_for(draw, methods, corpus, kwpool, env=None, n_calls=(1, 6), fitting=None):
    """Calls: positional values from the corpus, keyword subsets of the pool.  If `fitting`
    (callable ann -> list of value specs) is given, most calls are aimed at a random method."""
    out = []
    for _ in range(draw(st.integers(*n_calls))):
        m = draw(st.sampled_from(methods))
        lo = sum(1 for p in m["pos"] if not p.get("opt"))
        hi = len(m["pos"])
        n = draw(st.integers(lo, hi)) if draw(st.integers(0, 9)) else draw(st.integers(0, 3))
        args = []
        for j in range(n):
            pool = None
            if fitting is not None and j < len(m["pos"]) and draw(st.integers(0, 9)):
                pool = fitting(m["pos"][j]["ann"])
            args.append(draw(st.sampled_from(pool or corpus)))
        kws = {}
        for p in m.get("kw") or []:
            if not p.get("opt") or draw(st.booleans()):
                pool = fitting(p["ann"]) if (fitting is not None and draw(st.integers(0, 9))) else None
                kws[p["name"]] = draw(st.sampled_from(pool or corpus))
        if kwpool and draw(st.integers(0, 14)) == 0:
            kws[draw(st.sampled_from(kwpool))] = draw(st.sampled_from(corpus))
        if kws and draw(st.integers(0, 14)) == 0:
            kws.pop(sorted(kws)[0])
        out.append({"args": args, "kw": kws, "script": draw(scripts(corpus))})
    return out


@st.composite
def satisfiable(draw, ann_strategy, fit, tries=4):
    """Prefer annotations that at least one corpus value satisfies (construction, not rejection:
    after `tries` unsatisfiable draws the annotation is kept as drawn with probability 1/4, else
    replaced by `object`)."""
    a = None
    for _ in range(tries):
        a = draw(ann_strategy)
        if fit(a):
            return a
    return a if draw(st.integers(0, 3)) == 0 else ["obj"]


def fitting_fn(env, corpus):
    """ann spec -> corpus values the documented semantics accepts (cached per strategy draw)."""
    built = [(v, S.build_value(v, env)) for v in corpus]
    cache = {}

    def fit(ann):
        if ann is None:
            return None
        key = repr(ann)
        if key not in cache:
            cache[key] = [v for v, obj in built if S.accepts(ann, obj, env) is True]
        return cache[key]

    return fit


@st.composite
def literal_table_case(draw):
    """>= 4 methods keyed by distinct Literals at the first position (the lookup-table path of the generated
    dispatcher); some of them carry a second value-dependent condition at another position."""
    h = {"classes": [{"bases": []}]}
    ng = draw(st.integers(4, 6))
    pool = draw(st.permutations([0, 1, 2, 3, 4, 5, 6, 7, 8, 9]))
    groups, i = [], 0
    for _ in range(ng):
        sz = draw(st.sampled_from([1, 1, 2]))
        groups.append(list(pool[i:i + sz]))
        i += sz
    two = draw(st.integers(0, 3)) > 0
    seconds = [["cls", "int"], ["dep", ["cls", "int"], "pos"], ["dep", ["cls", "int"], "even"], ["lit", [0]],
               ["cls", "Number"], ["obj"]]
    methods = []
    for j, g in enumerate(groups):
        pos = [{"name": "a0", "ann": ["lit", g]}]
        if two:
            pos.append({"name": "a1", "ann": draw(st.sampled_from(seconds[:4] if draw(st.integers(0, 2)) == 0 else seconds[:1]))})
        methods.append({"id": j, "pos": pos, "kw": [], "prio": 0})
    fb = [{"name": "a0", "ann": ["cls", "int"]}] + ([{"name": "a1", "ann": ["cls", "int"]}] if two else [])
    methods.append({"id": len(methods), "pos": fb, "kw": [], "prio": 0})
    methods.append({"id": len(methods), "pos": [dict(p, ann=["obj"]) for p in fb], "kw": [], "prio": -1})
    calls = []
    for _ in range(draw(st.integers(4, 10))):
        a = [["int", draw(st.sampled_from(list(pool[:i]) + [11, -1]))]]
        if two:
            a.append(["int", draw(st.sampled_from([-2, -1, 0, 1, 2, 3, 150]))])
        calls.append({"args": a, "kw": {}, "script": []})
    return {"hier": h, "methods": methods, "host": draw(st.sampled_from(["func", "func", "attr", "mc"])), "calls": calls}

