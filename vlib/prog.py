"""Program emitter: case spec -> Python source (a linecache-backed virtual file, so that
ovld's `inspect.getsource`-based rewriting works) -> live ovld objects + instrumentation.

Method spec (JSON):
  {"id": 3, "pos": [{"name": "a0", "ann": <spec>|None, "opt": bool, "posonly": bool}],
   "kw": [{"name": "k0", "ann": <spec>|None, "opt": bool}], "prio": 0,
   "sites": [{"fn": "recurse"|"call_next"|"next"|"self", "npos": 1, "kws": ["k0"]}]}
Program spec: {"hier": <hier spec>, "methods": [...], "host": "func"|"attr"|"mc"}

Every generated body starts with `_a = _H.enter(<id>, locals())`: the harness logs the
binding and returns the next *action* of the current delegation script, so nested
recurse / call_next / f.next calls are generated data and always terminate.

Script actions (JSON):  ["ret"] | ["raise"] | ["site", k, "same"] |
                        ["site", k, [<value spec>...], {"kw": <value spec>}]
(k is taken modulo the number of call sites of the entered method; a method without call
sites returns.)
"""
import itertools
import linecache
import sys

from . import hier as H
from . import spec as S
from .outcome import HarnessExc, HarnessTypeError, capture

_counter = itertools.count()


class Default:
    """Unique default-value sentinel of (method, parameter)."""

    __slots__ = ("mid", "name")

    def __init__(self, mid, name):
        self.mid = mid
        self.name = name

    def __repr__(self):
        return f"<default m{self.mid}.{self.name}>"


class Result:
    __slots__ = ("mid", "n")

    def __init__(self, mid, n):
        self.mid = mid
        self.n = n

    def __repr__(self):
        return f"<result m{self.mid}#{self.n}>"


def _tl_property(name, default):
    def get(self):
        d = self._tl.__dict__
        if name not in d:
            d[name] = default()
        return d[name]

    def set_(self, value):
        self._tl.__dict__[name] = value

    return property(get, set_)


class Harness:
    """Per-program instrumentation.  The per-call state (log, script position, results ...) is thread-local so
    that several threads may drive the same program (C19)."""

    log = _tl_property("log", list)
    script = _tl_property("script", list)
    i = _tl_property("i", int)
    results = _tl_property("results", list)
    raised = _tl_property("raised", list)
    delegs = _tl_property("delegs", list)

    def __init__(self, prog):
        import threading

        self._tl = threading.local()
        self.prog = prog
        self.nres = 0
        self.on_enter = None

    def start(self, script):
        self.log = []
        self.script = list(script or [])
        self.i = 0
        self.results = []
        self.raised = []
        self.delegs = []

    def reg(self, mid):
        def deco(fn):
            self.prog.fns[mid] = fn
            return fn

        return deco

    def enter(self, mid, loc):
        m0 = self.prog.by_id.get(mid)
        if m0 is not None and m0.get("_factory"):
            # methods made by a shared factory def see its closure variables in locals(): keep the parameters only
            keep = {p["name"] for p in m0["pos"]} | {p["name"] for p in (m0.get("kw") or [])} | {"self"}
            loc = {k: v for k, v in loc.items() if k in keep}
        else:
            loc = dict(loc)
        self.log.append((mid, loc))
        if self.on_enter is not None:
            self.on_enter(mid, loc)
        if self.i >= len(self.script):
            return (0,)
        act = self.script[self.i]
        self.i += 1
        if act[0] == "ret":
            return (0,)
        if act[0] == "raise":
            return (-1,)
        m = self.prog.by_id[mid]
        sites = m.get("sites") or []
        if not sites:
            return (0,)
        k = act[1] % len(sites)
        site = sites[k]
        if act[2] == "same":
            names = [p["name"] for p in m["pos"]]
            pos = [loc[n] for n in names][: site["npos"]]
            while len(pos) < site["npos"]:
                pos.append(pos[-1] if pos else None)
            kws = {n: loc.get(n) for n in site.get("kws", [])}
        elif act[2] == "raw":
            # forward ready-made objects (set by Program.call(raw_site_args=...))
            pos = list(self.raw_args)[: site["npos"]]
            kws = {n: (self.raw_kwargs or {}).get(n) for n in site.get("kws", [])}
        else:
            env = self.prog.env
            vals = [S.build_value(v, env) for v in act[2]]
            pos = [vals[j % len(vals)] if vals else None for j in range(site["npos"])]
            kwv = act[3] if len(act) > 3 else {}
            kws = {
                n: (S.build_value(kwv[n], env) if n in kwv else (vals[0] if vals else None))
                for n in site.get("kws", [])
            }
        self.delegs.append((len(self.log) - 1, mid, site, list(pos), dict(kws)))
        return (k + 1, pos, kws)

    def ret(self, mid):
        self.nres += 1
        r = Result(mid, self.nres)
        self.results.append(r)
        return r

    def exc(self, mid):
        # every second exception a body raises is a TypeError (which the library catches for its own purposes)
        e = (HarnessTypeError if len(self.raised) % 2 == 0 else HarnessExc)(f"raised by m{mid}")
        self.raised.append(e)
        return e

    def leave(self, mid, inner):
        return inner

    def trace(self):
        return [mid for mid, _ in self.log]


def render_params(m, is_method, spelling=None):
    mid = m["id"]
    spelling = spelling or {}

    def ann_text(p):
        sp = spelling.get(f"{mid}_{p['name']}") or {}
        if p.get("ann") is None or sp.get("wrap") == "missing":
            return ""
        if sp.get("wrap") == "string":
            # a string annotation names a module-level alias; the same alias name (and module name) is reused by every
            # program, as happens when a module is executed again
            return ": \"TYPE_ALIAS\""
        return f": A{mid}_{p['name']}"

    parts = ["self"] if is_method else []
    pos = m["pos"]
    last_posonly = max((i for i, p in enumerate(pos) if p.get("posonly")), default=-1)
    for i, p in enumerate(pos):
        s = p["name"] + ann_text(p)
        if p.get("opt"):
            s += f" = D{mid}_{p['name']}"
        parts.append(s)
        if i == last_posonly:
            parts.append("/")
    if m.get("kw"):
        parts.append("*")
        for p in m["kw"]:
            s = p["name"] + ann_text(p)
            if p.get("opt"):
                s += f" = D{mid}_{p['name']}"
            parts.append(s)
    return ", ".join(parts)


def render_site(m, k, site, is_method):
    pos = ", ".join(f"_a[1][{j}]" for j in range(site["npos"]))
    # (keyword arguments may be written in any order at a call site)
    kws = ", ".join(f"{n}=_a[2][{n!r}]" for n in (site.get("kws", [])[::-1] if site.get("kwrev") else site.get("kws", [])))
    if site.get("star") and site["fn"] in ("recurse", "call_next"):
        # a call whose shape is not known statically: starred / double-starred arguments
        pos = f"*_a[1][:{site['npos']}]"
        kws = "**_a[2]" if site.get("kws") else ""
    args = ", ".join(x for x in (pos, kws) if x)
    fn = site["fn"]
    if fn == "recurse":
        call = f"recurse({args})"
    elif fn == "call_next":
        call = f"call_next({args})"
    elif fn == "next":
        call = f"self.f.next({args})" if is_method else f"_F.next({args})"
        if site.get("form") == "explicit" and is_method:
            # the receiver passed explicitly, through the class
            call = f"type(self).f.next(self, {args})" if args else "type(self).f.next(self)"
        elif site.get("form") == "lambda":
            call = f"(lambda: {call})()"  # from a nested frame of the method
    elif fn == "self":
        call = f"self.f({args})" if is_method else f"_F({args})"
    else:
        raise ValueError(fn)
    return f"    if _a[0] == {k + 1}: return _H.leave({m['id']}, {call})"


def render_method(m, is_method, name=None, indent="", decorators=(), spelling=None):
    mid = m["id"]
    lines = [f"{indent}{d}" for d in decorators]
    lines.append(f"{indent}def {name or 'm%d' % mid}({render_params(m, is_method, spelling)}):")
    body = [f"    _a = _H.enter({mid}, locals())"]
    for k, site in enumerate(m.get("sites") or []):
        body.append(render_site(m, k, site, is_method))
    body.append(f"    if _a[0] == -1: raise _H.exc({mid})")
    body.append(f"    return _H.ret({mid})")
    lines.extend(indent + b for b in body)
    return "\n".join(lines)


def render_factory(g, members, is_method, spelling=None):
    """Several methods produced by ONE `def` statement (a registration helper called once per type): they share the
    code object of the inner function and differ only in closure values (method id, annotations, defaults)."""
    proto = dict(members[0], id="MID")
    names = [p["name"] for p in proto["pos"] + (proto.get("kw") or [])]
    fparams = ["MID"] + [f"AMID_{n}" for n in names] + [f"DMID_{n}" for n in names]
    inner = render_method(proto, is_method, name="m", indent="    ", spelling=None)
    lines = [f"def fac{g}({', '.join(fparams)}):", inner, "    return m"]
    for m in members:
        args = [str(m["id"])]
        for p in m["pos"] + (m.get("kw") or []):
            args.append(f"A{m['id']}_{p['name']}" if p.get("ann") is not None else "object")
        for p in m["pos"] + (m.get("kw") or []):
            args.append(f"D{m['id']}_{p['name']}" if p.get("opt") else "None")
        lines.append(f"m{m['id']} = fac{g}({', '.join(args)})")
    return "\n".join(lines)


def install_source(src, tag="verif"):
    fname = f"<{tag}:{next(_counter)}:{id(src):x}>"
    lines = src.splitlines(True)
    linecache.cache[fname] = (len(src), None, lines, fname)
    return fname


class Program:
    """Live objects for one program spec."""

    def __init__(self, pspec, env=None, preds=None, order=None, build=True, spelling=None,
                 ovld_kwargs=None):
        import ovld

        self.spec = pspec
        self.env = env if env is not None else H.build(pspec["hier"])
        self.preds = preds
        self.host = pspec.get("host", "func")
        self.is_method = self.host in ("attr", "mc")
        self.methods = list(pspec["methods"])
        self.by_id = {m["id"]: m for m in self.methods}
        self.fns = {}
        self.H = Harness(self)
        self.defaults = {}
        self.anns = {}
        glb = {
            "__name__": f"verifprog{next(_counter)}",
            "_H": self.H,
            "ovld": ovld.ovld,
            "Ovld": ovld.Ovld,
            "OvldBase": ovld.OvldBase,
            "recurse": ovld.recurse,
            "call_next": ovld.call_next,
        }
        for m in self.methods:
            for p in list(m["pos"]) + list(m.get("kw") or []):
                key = f"{m['id']}_{p['name']}"
                if p.get("ann") is not None:
                    sp = (spelling or {}).get(key)
                    a = S.build_ann(p["ann"], self.env, sp, preds)
                    if sp and sp.get("wrap") == "annotated":
                        import typing

                        a = typing.Annotated[a, "meta"]
                    if sp and sp.get("wrap") == "string":
                        if sp.get("annotated"):
                            # the string names an Annotated type (every Annotated annotation under
                            # `from __future__ import annotations`)
                            import typing

                            a = typing.Annotated[a, "meta"]
                        glb["TYPE_ALIAS"] = a
                        glb["__name__"] = "verifprog_reexecuted"
                    self.anns[key] = a
                    glb[f"A{key}"] = a
                if p.get("opt"):
                    d = Default(m["id"], p["name"])
                    self.defaults[(m["id"], p["name"])] = d
                    glb[f"D{key}"] = d
        order = list(order) if order is not None else [m["id"] for m in self.methods]
        self.order = order
        if self.host == "mc":
            parts = ["class Host(OvldBase):"]
            for mid in order:
                m = self.by_id[mid]
                decos = [f"@ovld(priority={m.get('prio', 0)})", f"@_H.reg({mid})"]
                parts.append(render_method(m, True, name="f", indent="    ", decorators=decos, spelling=spelling))
            src = "\n".join(parts) + "\n"
        else:
            groups = [g for g in (pspec.get("factories") or []) if len(g) >= 1]
            grouped = {i for g in groups for i in g}
            chunks = [render_method(m, self.is_method, spelling=spelling) for m in self.methods if m["id"] not in grouped]
            for gi, g in enumerate(groups):
                members = [self.by_id[i] for i in g]
                for m in members:
                    m["_factory"] = True
                chunks.append(render_factory(gi, members, self.is_method))
            src = "\n\n".join(chunks) + "\n"
        self.src = src
        self.fname = install_source(src)
        self.glb = glb
        code = compile(src, self.fname, "exec")
        exec(code, glb, glb)
        if self.host == "mc":
            self.ov = glb["Host"].__dict__["f"].__ovld__ if order else None
            self.obj = glb["Host"]()
            self.f = self.obj.f if order else None
        else:
            for m in self.methods:
                self.fns[m["id"]] = glb[f"m{m['id']}"]
            self.ov = ovld.Ovld(**(ovld_kwargs or {}))
            if build:
                for mid in order:
                    self.register(mid)
            self._bind()

    def _bind(self):
        if not hasattr(self.ov, "dispatch"):
            self.f = None
            return
        self.glb["_F"] = self.ov.dispatch
        if self.host == "attr":
            Host = type("Host", (), {"f": self.ov.dispatch, "__module__": "verifprog"})
            self.obj = Host()
            self.f = self.obj.f
        else:
            self.obj = None
            self.f = self.ov.dispatch

    def register(self, mid):
        self.ov.register(self.fns[mid], priority=self.by_id[mid].get("prio", 0))
        if "_F" not in self.glb:
            self._bind()

    def call(self, args, kwargs=None, script=None, via=None, raw_site_args=None, raw_site_kwargs=None):
        self.H.start(script)
        self.H.raw_args = raw_site_args
        self.H.raw_kwargs = raw_site_kwargs
        f = via if via is not None else self.f
        return capture(f, *args, **(kwargs or {}))

    def close(self):
        linecache.cache.pop(self.fname, None)
        self.glb.clear()


def canonical_order(methods):
    return [m["id"] for m in methods]
