"""Annotation specs with INDEPENDENT semantics.

Annotation specs are JSON lists:
  ["cls", name]            a class of the environment (hierarchy class, builtin, ABC, protocol)
  ["obj"]                  object
  ["union", [s...]]        ovld Union / typing.Union / | / tuple    (spelling chosen separately)
  ["inter", [s...]]        ovld.types.Intersection
  ["exactly", name]        ovld.types.Exactly[cls]
  ["strict", name]         ovld.types.StrictSubclass[cls]
  ["hasmethod", mname]     ovld.types.HasMethod[mname]
  ["lit", [v...]]          typing.Literal[v...]           (v: JSON scalars)
  ["dep", s_bound, pid]    Dependent[bound, PRED[pid]]
  ["tup", [s...]]          tuple[...]
  ["listof", s] ["seqof", s] ["collof", s] ["mapof", sk, sv]   list[T] / Sequence[T] / Collection[T] / Mapping[K, V]
  ["regexp", p] ["startswith", p] ["endswith", p] ["haskey", [k...]]
  ["type", s] | ["type"]   type[T] / bare type
  ["gen", origin, [s...]]  origin[args]  (list / dict / Iterable ... parametrised, used under type[...])

Value specs are JSON lists:
  ["inst", name] ["int", n] ["bool", b] ["str", s] ["float", x] ["none"] ["bytes", s]
  ["list", [v...]] ["tuple", [v...]] ["dict", [[k, v]...]] ["set", [v...]]
  ["clsobj", name]  (a class passed as a value)   ["genobj", origin, [s...]]

`build_ann` makes the real annotation object; `accepts` is the documented meaning written by
hand (True / False / None = unspecified); `order` answers only what the docs / property texts
fix and UNSPEC otherwise.
"""
import collections.abc
import re
import enum
import typing

LESS, MORE, SAME, NONE, UNSPEC = "LESS", "MORE", "SAME", "NONE", "UNSPEC"


def flip(o):
    return {LESS: MORE, MORE: LESS}.get(o, o)


# ------------------------------------------------------------------ predicates for Dependent

class PredLog:
    """Predicates log every value they are asked about (C10: bound guard)."""

    def __init__(self):
        self.asked = []  # (pid, value)
        self.raise_on_foreign = True


PRED_IMPL = {
    # pid: (function over values of ANY type -> bool; may raise on foreign types)
    "pos": lambda v: v > 0,
    "neg": lambda v: v < 0,
    "zero": lambda v: v == 0,
    "nonneg": lambda v: v >= 0,
    "even": lambda v: v % 2 == 0,
    "big": lambda v: v > 100,
    "truthy": lambda v: bool(v),
    "falsy": lambda v: not v,
    "true": lambda v: True,
    "false": lambda v: False,
    "len2": lambda v: len(v) == 2,
    "short": lambda v: len(v) < 2,
    "hasmark": lambda v: hasattr(v, "mA"),
    # conditions whose result is truthy / falsy but not a bool (RAW: handed to the library as is)
    "mod3": lambda v: v % 3,
    "lenraw": lambda v: len(v),
    "named_even": lambda v: int(type(v).__name__[1:]) % 2 == 0,
}
# which builtin bound makes each predicate total
PRED_DOMAIN = {
    "pos": "num", "neg": "num", "zero": "num", "nonneg": "num", "even": "int", "big": "num",
    "truthy": "any", "falsy": "any", "true": "any", "false": "any",
    "len2": "sized", "short": "sized", "hasmark": "any", "named_even": "kcls",
    "mod3": "int", "lenraw": "sized",
}
PRED_RAW = {"mod3", "lenraw"}


def make_pred(pid, log=None):
    impl = PRED_IMPL[pid]

    def pred(v):
        if log is not None:
            log.asked.append((pid, v))
        return impl(v) if pid in PRED_RAW else bool(impl(v))

    pred.__name__ = f"p_{pid}"
    pred.__qualname__ = f"p_{pid}"
    return pred


def pred_holds(pid, v):
    """Truth of the predicate according to the model (None if it would raise)."""
    try:
        return bool(PRED_IMPL[pid](v))
    except Exception:
        return None


# ------------------------------------------------------------------ building real objects


class UStr(str):
    """an ordinary str value - equal to the plain string - whose class switched hashing off"""

    __hash__ = None

    def __repr__(self):
        return f"UStr({str.__repr__(self)})"


class Color(enum.IntEnum):
    RED = 1
    BLUE = 7


class Tone(str, enum.Enum):
    LOW = "a"
    HIGH = "hi"


ENUMS = {"RED": Color.RED, "BLUE": Color.BLUE, "LOW": Tone.LOW, "HIGH": Tone.HIGH}


def build_value(v, env):
    k = v[0]
    if k == "inst":
        return env[v[1]]()
    if k == "eqinst":
        # an instance (of an ad-hoc subclass) that compares EQUAL to every object: identity is what counts wherever the
        # library has to tell objects apart (the receiver of a method, a sentinel)
        base = env[v[1]]
        cls = _EQ_CLASSES.get(base)
        if cls is None:
            cls = _EQ_CLASSES[base] = type(base.__name__ + "Eq", (base,), {
                "__eq__": lambda a, b: True, "__ne__": lambda a, b: False, "__hash__": lambda a: 0})
        return cls()
    if k == "float":
        return float(v[1])  # also "inf" / "nan"
    if k == "ustr":
        return UStr(v[1])  # a str that cannot be hashed
    if k == "enum":
        return ENUMS[v[1]]
    if k in ("int", "bool", "str"):
        return v[1]
    if k == "none":
        return None
    if k == "bytes":
        return v[1].encode()
    if k == "list":
        return [build_value(x, env) for x in v[1]]
    if k == "tuple":
        return tuple(build_value(x, env) for x in v[1])
    if k == "set":
        return {build_value(x, env) for x in v[1]}
    if k == "dict":
        return {build_value(a, env): build_value(b, env) for a, b in v[1]}
    if k == "mproxy":
        import types

        return types.MappingProxyType({build_value(a, env): build_value(b, env) for a, b in v[1]})
    if k == "clsobj":
        return env[v[1]]
    if k == "genobj":
        return build_gen(v[1], v[2], env)
    if k == "any":
        return typing.Any
    raise ValueError(v)


_EQ_CLASSES = {}


def lit_value(x):
    """JSON scalar -> python literal value (lists encode tagged values)."""
    if isinstance(x, list):
        tag, val = x
        if tag == "bytes":
            return val.encode()
        if tag == "none":
            return None
        if tag == "float":
            return float(val)
        if tag == "enum":
            return ENUMS[val]
        if tag == "bool":
            return bool(val)
        if tag == "int":
            return int(val)
        return val
    return x


def build_gen(origin, args, env):
    o = env[origin] if origin in env else getattr(collections.abc, origin)
    a = tuple(build_ann(x, env) for x in args)
    return o[a if len(a) != 1 else a[0]]


def _normalize(t, fn):
    from .api import normalize_type

    return normalize_type(t, fn)


def build_ann(s, env, spelling=None, preds=None):
    """Real annotation object for spec `s`.

    `spelling` (optional dict) selects equivalent spellings:  {"union": "typing"|"pipe"|"tuple"|"ovld",
    "optional": ..., "wrap": "annotated"|"string"|None}.  `preds`: PredLog to instrument predicates.
    """
    import ovld
    from ovld import Dependent
    from ovld import types as T
    from ovld import dependent as D

    sp = spelling or {}
    k = s[0]
    if k == "cls":
        return env[s[1]]
    if k == "custom":  # a user-defined type object supplied by the check through env["__custom__"]
        return env["__custom__"][s[1]]
    if k == "obj":
        return typing.Any if sp.get("obj") == "any" else object
    if k == "anyT":  # typing.Any written inside another type (type[Any], type[list[Any]]); counts as object
        return typing.Any
    if k == "union":
        how = sp.get("union", "typing")
        members = [build_ann(x, env, ({"union": "ovld", "inter": sp.get("inter")} if how == "ovld" else None), preds)
                   for x in s[1]]
        if how == "optional":
            rest = [m for m in members if m is not type(None)]
            return typing.Optional[rest[0]] if len(rest) == 1 else typing.Optional[typing.Union[tuple(rest)]]
        if how == "tuple":
            return tuple(members)
        if how == "tuple-none":  # None written for NoneType, as in Optional / A | None
            return tuple(None if m is type(None) else m for m in members)
        if how == "tuple-nested" and len(members) >= 3:  # (A, (B, C))
            return (members[0], tuple(members[1:]))
        if how == "pipe":
            out = members[0]
            try:
                for m in members[1:]:
                    out = out | m
                return out
            except TypeError:
                return typing.Union[tuple(members)]
        if how == "ovld":
            return T.Union[tuple(members)]  # members as written, not normalised by the harness
        return typing.Union[tuple(members)]
    if k == "inter":
        # Intersection[...] does not normalise its arguments: nested unions are written with ovld's own Union
        amp = sp.get("inter") == "amp"
        inner_sp = {"union": "ovld", "inter": "amp"} if amp else {"union": "ovld"}
        # members as a user writes them (typing.Literal[...], dict[str, int], ...): NOT normalised by the harness
        members = [build_ann(x, env, inner_sp, preds) for x in s[1]]
        if amp:
            # the `A & B` spelling (ovld's types define & / reflected &)
            try:
                out = members[0]
                for m in members[1:]:
                    out = out & m
                return out
            except TypeError:
                pass
        return T.Intersection[tuple(members)]
    if k == "exactly":
        return T.Exactly[env[s[1]]]
    if k == "strict":
        return T.StrictSubclass[env[s[1]]]
    if k == "hasmethod":
        return T.HasMethod[s[1]]
    if k == "lit":
        return typing.Literal[tuple(lit_value(x) for x in s[1])]
    if k == "dep":
        # Dependent[...] makes a new, unequal type every time it is written; a user who means "the same
        # type" binds it to a name.  With env["__depcache__"] the same spec yields the same object.
        cache = env.get("__depcache__") if (preds is None and not sp.get("bound_union")) else None
        key = repr(s)
        if cache is not None and key in cache:
            return cache[key]
        bsp = {"union": sp["bound_union"]} if sp.get("bound_union") else None  # how a union BOUND is spelled
        d = Dependent[build_ann(s[1], env, bsp, preds), make_pred(s[2], preds)]
        if cache is not None:
            cache[key] = d
        return d
    if k == "rebound":  # Dependent[<narrower bound>, <parametrised value type>]: same check, another bound
        bound = build_ann(s[1], env, None, preds) if isinstance(s[1], list) else env[s[1]]  # (the bound may be a spec)
        inner = build_ann(s[2], env, None, preds)
        if s[2][0] == "lit":
            inner = D.Equals[tuple(lit_value(x) for x in s[2][1])] if len(s[2][1]) != 1 else D.Equals[lit_value(s[2][1][0])]
        return Dependent[bound, inner]
    if k == "tup":
        items = tuple(build_ann(x, env, None, preds) for x in s[1])
        return tuple[items] if items else tuple[()]
    if k == "tupvar":  # tuple[T, ...]
        return tuple[build_ann(s[1], env, None, preds), ...]
    if k == "listof":
        if sp.get("list") == "typing":
            return typing.List[build_ann(s[1], env, None, preds)]
        return list[build_ann(s[1], env, None, preds)]
    if k == "seqof":
        return collections.abc.Sequence[build_ann(s[1], env, None, preds)]
    if k == "collof":
        return collections.abc.Collection[build_ann(s[1], env, None, preds)]
    if k == "mapof":
        return collections.abc.Mapping[
            build_ann(s[1], env, None, preds), build_ann(s[2], env, None, preds)
        ]
    if k == "dictof":
        return dict[build_ann(s[1], env, None, preds), build_ann(s[2], env, None, preds)]
    if k == "regexp":
        return D.Regexp[s[1]]
    if k == "startswith":
        return D.StartsWith[s[1]]
    if k == "endswith":
        return D.EndsWith[s[1]]
    if k == "haskey":
        return D.HasKey[tuple(s[1])] if len(s[1]) != 1 else D.HasKey[s[1][0]]
    if k == "type":
        if len(s) == 1:
            return type
        inner = build_ann(s[1], env, (sp if s[1][0] == "union" else None), preds)
        if sp.get("type_inner") == "annotated":
            inner = typing.Annotated[inner, "meta"]  # type[Annotated[A, ...]]
        return type[inner]
    if k == "gen":
        return build_gen(s[1], s[2], env)
    raise ValueError(s)


# ------------------------------------------------------------------ documented value semantics


def is_dependent_spec(s):
    k = s[0]
    if k in ("lit", "dep", "tup", "tupvar", "listof", "seqof", "collof", "mapof", "dictof", "regexp",
             "startswith", "endswith", "haskey", "rebound"):
        return True
    if k in ("union", "inter"):
        return any(is_dependent_spec(x) for x in s[1])
    return False


def _and(vals):
    vals = list(vals)
    if any(v is False for v in vals):
        return False
    if any(v is None for v in vals):
        return None
    return True


def _or(vals):
    vals = list(vals)
    if any(v is True for v in vals):
        return True
    if any(v is None for v in vals):
        return None
    return False


def accepts(s, value, env):
    """Does `value` satisfy annotation spec `s` by its DOCUMENTED meaning?
    True / False / None (unspecified by the docs)."""
    k = s[0]
    if k == "cls":
        return isinstance(value, env[s[1]])
    if k == "obj":
        return True
    if k == "union":
        return _or(accepts(x, value, env) for x in s[1])
    if k == "inter":
        return _and(accepts(x, value, env) for x in s[1])
    if k == "exactly":
        return type(value) is env[s[1]]
    if k == "strict":
        return isinstance(value, env[s[1]]) and type(value) is not env[s[1]]
    if k == "hasmethod":
        return hasattr(type(value), s[1])
    if k == "lit":
        vals = [lit_value(x) for x in s[1]]
        try:
            eq = [v for v in vals if (value == v) is True]
        except Exception:
            return None
        if not eq:
            return False
        if any(isinstance(value, type(v)) for v in eq):
            return True
        return None  # equal value of a foreign type (1.0 vs Literal[1]): unspecified
    if k == "rebound":
        if isinstance(s[1], list):
            b = accepts(s[1], value, env)
            if b is not True:
                return b
        elif not isinstance(value, env[s[1]]):
            return False
        return accepts(s[2], value, env)
    if k == "dep":
        b = accepts(s[1], value, env)
        if b is not True:
            return b
        return pred_holds(s[2], value)
    if k == "tup":
        if not isinstance(value, tuple) or len(value) != len(s[1]):
            return False
        return _and(accepts(x, v, env) for x, v in zip(s[1], value))
    if k == "tupvar":
        if not isinstance(value, tuple):
            return False
        vs = [accepts(s[1], v, env) for v in value]
        if not vs or all(v is True for v in vs):
            return True
        if vs[0] is False:
            return False
        return None  # the first element fits, a later one does not: deep or shallow check is not documented
    if k == "listof":
        if not isinstance(value, list):
            return False
        return True if not value else accepts(s[1], value[0], env)
    if k == "seqof":
        if not isinstance(value, collections.abc.Sequence):
            return False
        return True if not value else accepts(s[1], value[0], env)
    if k == "collof":
        if not isinstance(value, collections.abc.Collection):
            return False
        for x in value:
            return accepts(s[1], x, env)
        return True
    if k in ("mapof", "dictof"):
        base = collections.abc.Mapping if k == "mapof" else dict
        if not isinstance(value, base):
            return False
        for kk in value:
            return _and([accepts(s[1], kk, env), accepts(s[2], value[kk], env)])
        return True
    if k == "regexp":
        return isinstance(value, str) and bool(re.search(s[1], value))
    if k == "startswith":
        return isinstance(value, str) and value.startswith(s[1])
    if k == "endswith":
        return isinstance(value, str) and value.endswith(s[1])
    if k == "haskey":
        return isinstance(value, collections.abc.Mapping) and all(x in value for x in s[1])
    if k == "type":
        if len(s) == 1:
            return isinstance(value, type) or hasattr(value, "__origin__")
        return None
    return None


def accepts_type(s, cls, env):
    """Type-level applicability for NON-dependent specs: does class `cls` satisfy `s`?"""
    k = s[0]
    if k == "cls":
        return issubclass(cls, env[s[1]])
    if k == "obj":
        return True
    if k == "union":
        return _or(accepts_type(x, cls, env) for x in s[1])
    if k == "inter":
        return _and(accepts_type(x, cls, env) for x in s[1])
    if k == "exactly":
        return cls is env[s[1]]
    if k == "strict":
        return issubclass(cls, env[s[1]]) and cls is not env[s[1]]
    if k == "hasmethod":
        return hasattr(cls, s[1])
    return None


def static_bound(s, env):
    """The class-level bound of a spec if it is a plain class (else None)."""
    if s[0] == "cls":
        return env[s[1]]
    if s[0] == "obj":
        return object
    return None


def dep_bound(s, env):
    """Documented bound class of a dependent spec, or None if not a single plain class."""
    k = s[0]
    if k == "dep":
        return static_bound(s[1], env)
    if k == "lit":
        ts = {type(lit_value(x)) for x in s[1]}
        return ts.pop() if len(ts) == 1 else None
    if k in ("regexp", "startswith", "endswith"):
        return str
    if k in ("tup", "tupvar"):
        return tuple
    if k == "listof":
        return list
    if k == "dictof":
        return dict
    if k == "seqof":
        return collections.abc.Sequence
    if k == "collof":
        return collections.abc.Collection
    if k in ("mapof", "haskey"):
        return collections.abc.Mapping
    return None


def _canon(s):
    import json

    return json.dumps(s, sort_keys=True)


def _writes_dep(s):
    """Does the spec write a Dependent[bound, predicate] anywhere?  Each writing is a new type."""
    if isinstance(s, list):
        if s and s[0] == "dep":
            return True
        return any(_writes_dep(x) for x in s)
    return False


def order(s1, s2, env):
    """Partial specificity order as far as the documentation fixes it."""
    c1, c2 = static_bound(s1, env), static_bound(s2, env)
    if c1 is not None and c2 is not None:
        if c1 is c2:
            return SAME
        a, b = issubclass(c1, c2), issubclass(c2, c1)
        if a and b:
            return UNSPEC
        return LESS if a else MORE if b else NONE
    if not _writes_dep(s1) and _canon(s1) == _canon(s2):  # NB: python's == would equate False and 0
        return SAME
    # NB: Dependent[bound, pred] creates a new, unequal type each time it is written, so two parameters
    # with the same ["dep", ...] spec are two different types on the same bound (unordered).
    d1, d2 = is_dependent_spec(s1), is_dependent_spec(s2)
    if d1 and c2 is not None:
        b = dep_bound(s1, env)
        if b is None or s1[0] in ("union", "inter"):
            return UNSPEC
        if issubclass(b, c2) or issubclass(c2, b):
            return LESS  # docs/dependent.md Note: below the bound and everything comparable with it
        return NONE
    if d2 and c1 is not None:
        return flip(order(s2, s1, env))
    if d1 and d2:
        if s1[0] in ("union", "inter") or s2[0] in ("union", "inter"):
            return UNSPEC
        if s1[0] == "tup" and s2[0] == "tup":
            return UNSPEC
        b1, b2 = dep_bound(s1, env), dep_bound(s2, env)
        if (b1 is None and b2 is None and s1[0] == "dep" and s2[0] == "dep"
                and s1[1][0] == "union" and s2[1][0] == "union"
                and all(m[0] == "cls" for m in s1[1][1] + s2[1][1])
                and {_canon(m) for m in s1[1][1]} == {_canon(m) for m in s2[1][1]}):
            # the same bound written twice as a union of plain classes is still the same bound
            return NONE
        if b1 is None or b2 is None:
            return UNSPEC
        if b1 is b2:
            return NONE  # docs/dependent.md Important: same bound => unordered (ambiguous when both hold)
        if not issubclass(b1, b2) and not issubclass(b2, b1):
            return NONE
        return UNSPEC
    return UNSPEC
