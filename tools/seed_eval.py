#!/usr/bin/env python3
"""Confirm a seeded defect produced by an independent sub-agent and run our checks against it.

  tools/seed_eval.py /tmp/seed_C05_1 [--checks C05,C16] [--tier quick] [--seeds 1,2] [--keep-as C05_1]

Steps (all in a scratch copy of /repo outside /repo and /verif, removed afterwards):
  1. demo.py on the UNMODIFIED copy must exit 0;
  2. apply patch.diff; the repo's own test-suite must still give the 143 baseline passes;
  3. demo.py on the patched copy must exit non-zero;
  4. run the named checks with VERIF_REPO=<patched copy>: DETECTED if exit 1 with a VIOLATION line.
With --keep-as the patch, demo and meta.json (+ our confirmation and detection record) are stored under
/verif/seeded/<name>/.  /verif/evidence and /verif/replay are saved and restored around the runs.
"""
import argparse
import json
import os
import shutil
import subprocess
import sys
import tempfile

VERIF = os.path.dirname(os.path.dirname(os.path.abspath(__file__)))
PY = "/venv/bin/python"
DESELECT = ["test_conform", "test_conform_2", "test_display", "test_display_more", "test_doc", "test_doc2",
            "test_method_doc"]


def run(cmd, cwd, env=None, timeout=3600):
    return subprocess.run(cmd, cwd=cwd, env=env, capture_output=True, text=True, timeout=timeout)


def main():
    ap = argparse.ArgumentParser()
    ap.add_argument("seed_dir")
    ap.add_argument("--checks", default=None)
    ap.add_argument("--tier", default="quick")
    ap.add_argument("--seeds", default="1,2")
    ap.add_argument("--keep-as", default=None)
    ns = ap.parse_args()
    sd = os.path.abspath(ns.seed_dir)
    meta = json.load(open(os.path.join(sd, "meta.json"))) if os.path.exists(os.path.join(sd, "meta.json")) else {}
    prop = meta.get("property") or os.path.basename(sd).split("_")[1]
    checks = (ns.checks or prop).split(",")
    scratch = tempfile.mkdtemp(prefix="ovld_seed_")
    keep = tempfile.mkdtemp(prefix="ovld_keep_")
    report = {"seed": os.path.basename(sd), "property": prop}
    try:
        repo = os.path.join(scratch, "repo")
        shutil.copytree("/repo", repo, ignore=shutil.ignore_patterns(".git", "__pycache__", "*.pyc", "docs", "benchmarks"))
        env = {**os.environ, "PYTHONPATH": os.path.join(repo, "src"), "PYTHONHASHSEED": "0"}
        shutil.copy(os.path.join(sd, "demo.py"), os.path.join(scratch, "demo.py"))
        r = run([PY, "demo.py"], scratch, env)
        report["demo_clean_rc"] = r.returncode
        r = run(["patch", "-p1", "-s", "-i", os.path.join(sd, "patch.diff")], repo)
        report["patch_applies"] = r.returncode == 0
        if r.returncode != 0:
            report["patch_error"] = (r.stdout + r.stderr)[-400:]
            print(json.dumps(report, indent=1))
            return 2
        desel = []
        for t in DESELECT:
            desel += ["--deselect", f"tests/test_ovld.py::{t}"]
        ok_all = True
        tails = []
        for hs in ("0", "1", "2"):
            r = run([PY, "-m", "pytest", "-q", "-p", "no:cacheprovider"] + desel, repo, {**env, "PYTHONHASHSEED": hs})
            tail = (r.stdout.strip().splitlines() or ["?"])[-1]
            tails.append(tail)
            ok_all = ok_all and r.returncode == 0 and "143 passed" in tail
        report["tests_with_defect"] = tails
        report["tests_ok"] = ok_all
        r = run([PY, "demo.py"], scratch, env)
        report["demo_defect_rc"] = r.returncode
        report["confirmed"] = bool(report["demo_clean_rc"] == 0 and ok_all and r.returncode != 0)
        det = {}
        for ci, c in enumerate(checks):
            if ci > 0 and det[checks[0]]["detected"] and os.environ.get("SEED_EVAL_OWN_FIRST"):
                break  # the property's own check detects it: the neighbours are only consulted for misses
            hit, info = False, []
            for seed in ns.seeds.split(","):
                e2 = {**os.environ, "VERIF_REPO": repo, "VERIF_SEED": seed, "VERIF_OUT": os.path.join(scratch, "out")}
                e2.pop("PYTHONPATH", None)
                r = run([PY, "-m", f"checks.c{c[1:]}", "--tier", ns.tier], VERIF, e2)
                viol = [l for l in r.stdout.splitlines() if l.startswith("VIOLATION")]
                msg = [l.strip()[:300] for l in r.stdout.splitlines() if l.startswith("  ")][:1]
                info.append({"seed": seed, "exit": r.returncode, "violations": len(viol), "first": msg})
                if r.returncode == 2:
                    info[-1]["stderr"] = r.stderr[-600:]
                if r.returncode == 1 and viol:
                    hit = True
                    break
            det[c] = {"detected": hit, "runs": info}
        report["checks"] = det
        report["detected_by"] = [c for c, v in det.items() if v["detected"]]
        print(json.dumps(report, indent=1))
        if ns.keep_as:
            dst = os.path.join(VERIF, "seeded", ns.keep_as)
            os.makedirs(dst, exist_ok=True)
            for f in ("patch.diff", "demo.py"):
                shutil.copy(os.path.join(sd, f), os.path.join(dst, f))
            meta["confirmation"] = {k: report[k] for k in ("demo_clean_rc", "tests_with_defect", "tests_ok",
                                                            "demo_defect_rc", "confirmed")}
            meta["what_we_ran"] = (f"tools/seed_eval.py: demo on clean copy, patch applied to a scratch copy of /repo, repo tests "
                                   f"x3 hash seeds, demo on patched copy, checks {checks} tier={ns.tier} seeds={ns.seeds}")
            meta["detected_by"] = report["detected_by"]
            meta["check_runs"] = det
            json.dump(meta, open(os.path.join(dst, "meta.json"), "w"), indent=1)
        return 0
    finally:
        shutil.rmtree(scratch, ignore_errors=True)
        shutil.rmtree(keep, ignore_errors=True)


if __name__ == "__main__":
    sys.exit(main())
