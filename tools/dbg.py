"""debug: run a check's strategy N times in-process and print cases whose labels/outcomes match."""
import sys, json
sys.path.insert(0, '/verif')
import importlib
from hypothesis import given, settings, seed, HealthCheck
mod = importlib.import_module(sys.argv[1]); n = int(sys.argv[2]); pat = sys.argv[3] if len(sys.argv) > 3 else None
strat = getattr(mod, sys.argv[4] if len(sys.argv) > 4 else 'case_strategy')()
runner = getattr(mod, sys.argv[5] if len(sys.argv) > 5 else 'run_case')
cnt = [0]
@seed(1)
@settings(max_examples=n, database=None, deadline=None, suppress_health_check=list(HealthCheck))
@given(strat)
def t(spec):
    res = runner(spec)
    if pat and any(pat in l for l in res.labels) and cnt[0] < 3:
        cnt[0] += 1
        print(json.dumps(spec)); print(res.labels)
    for d in res.disagreements:
        print('DIS', d.signature, d.message[:300])
t()
