#!/usr/bin/env python3
"""Run every registered check (quick or thorough) and summarise exit codes / wall time.
   tools/run_all.py [--tier quick] [--seed 1] [--only C01,C02]"""
import argparse, json, os, subprocess, sys, time
VERIF = os.path.dirname(os.path.dirname(os.path.abspath(__file__)))
ap = argparse.ArgumentParser(); ap.add_argument("--tier", default="quick"); ap.add_argument("--seed", default="1"); ap.add_argument("--only", default=None)
ns = ap.parse_args()
man = json.load(open(os.path.join(VERIF, "MANIFEST.json")))
bad = 0
for c in man["checks"]:
    pid = c["property_id"]
    if ns.only and pid not in ns.only.split(","):
        continue
    cmd = c["quick_cmd"] if ns.tier == "quick" else c["thorough_cmd"]
    t0 = time.time()
    r = subprocess.run(cmd, shell=True, cwd=VERIF, env={**os.environ, "VERIF_SEED": ns.seed, "VERIF_TIER": ns.tier}, capture_output=True, text=True)
    wall = time.time() - t0
    last = [l for l in r.stdout.splitlines() if l.startswith(pid)]
    viol = [l for l in r.stdout.splitlines() if l.startswith("VIOLATION")]
    known = len([l for l in r.stdout.splitlines() if l.startswith("KNOWN-FINDING")])
    print(f"{pid} rc={r.returncode} wall={wall:.0f}s known-lines={known} viol={len(viol)} :: {(last[-1] if last else r.stderr[-300:])[:170]}")
    if r.returncode != 0:
        bad += 1
        print(r.stdout[-1500:]); print(r.stderr[-800:])
sys.exit(1 if bad else 0)
