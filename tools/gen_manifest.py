"""Regenerates MANIFEST.json from the table below (kept in one place so it stays valid)."""
import json
import os

BASE = os.path.dirname(os.path.dirname(os.path.abspath(__file__)))
PY = "/venv/bin/python"

CHECKS = {}
NOT_APPLICABLE = {}


# what the third / fourth rounds added to a check's level text (applied to the texts below)
UPDATES = {
    "C03": [("Sampled, not exhaustive.", "Every probed call shape is also re-issued from inside a router method (recurse / "
             "call_next, statically shaped and with * / **) and must be served like the direct call. Sampled, not exhaustive.")],
    "C07": [("(successive resolutions with the winner removed). Sampled.", "(successive resolutions with the winner removed); "
             "f.next also from methods with self and with keywords. Sampled. Two recorded known findings (F61: a tied peer of the "
             "caller is skipped; F62: a caller excluded by its value condition is not treated as a fresh call).")],
    "C10": [("One recorded known finding (F20", "Plus the full pair table of two parametrised condition families (Any wildcard). "
             "One recorded known finding (F20")],
    "C14": [("plus a metamorphic check that removing every type[...] method never changes ordinary calls. Sampled.",
             "plus metamorphic checks: removing every type[...] method never changes ordinary calls, and the same call forwarded "
             "from a router method (recurse / call_next, static and starred, functions and methods with self) resolves like the "
             "direct call. Annotations include Any and unions inside type[...] and a metaclass. Sampled.")],
    "C18": [("afterwards every probe through both entry points must equal a fresh function over the registered methods or be a "
             "configuration error.", "afterwards every probe - through the dispatch function, the Ovld object and f.next - must "
             "equal a fresh function over the registered methods or be a configuration error, the function must keep following "
             "later changes (unregister / register of the newest method), and handlers obtained before a failing change must not "
             "dispatch over its table.")],
    "C19": [("over 7 racing scenarios (first calls, cache misses, call_next chains,", "over 10 racing scenarios (first calls, cache "
             "misses, different call shapes, call_next chains,"),
            ("sampled schedules with up to 3 pre-emptions,", "two-pre-emption schedules on the racing first calls, sampled "
             "schedules with up to 3 pre-emptions,"),
            ("Locks found on the objects under test are replaced by cooperative ones", "Locks the library creates (at "
             "construction or lazily during the race) are cooperative ones")],
    "C20": [("must consult zero hooks when repeated, including nested recurse / call_next. Sampled.", "- or that only dispatches "
             "on argument-type combinations earlier calls resolved, whatever the order its keywords are written in - must consult "
             "zero hooks, including nested recurse / call_next; refused and no-op change operations do not count as changes. "
             "Sampled.")],
}


def check(pid, category, text, note, technique, design_ref):
    for a, b in UPDATES.get(pid, []):
        assert a in text, (pid, a)
        text = text.replace(a, b)
    CHECKS[pid] = dict(category=category, text=text, note=note, technique=technique, design_ref=design_ref)


check(
    "C02", "exploration",
    "Exhaustive enumeration of all class DAGs on 3 (quick) / 4 (thorough) classes x all short method "
    "sequences x all argument-class tuples, plus Hypothesis-generated larger hierarchies and method sets, "
    "each call compared with an independent reference model of the documented rule and with resolve(). "
    "Complete for the small bound, sampled beyond it.",
    "Trusts Python's issubclass as ground truth for class subtyping and the hand-written model (vlib/model.py); "
    "error kinds compared, not texts.",
    "property-based differential testing against a reference model (exhaustive small-scope + Hypothesis)",
    "DESIGN.md §4 C02",
)

check(
    "C03", "exploration",
    "Hypothesis-generated signature sets and call shapes; the method that the target's own signature selects must "
    "run with exactly the supplied objects and its own unique default sentinels, and its fresh return value / raised "
    "exception must reach the caller, all compared by identity. Sampled, not exhaustive.",
    "Expected target is unambiguous by construction (first-parameter classes pairwise unrelated); positional-by-keyword "
    "asserted only in the documented regime.",
    "property-based testing with an identity-based binding oracle (Hypothesis)",
    "DESIGN.md §4 C03",
)

check(
    "C01", "exploration",
    "Hypothesis-generated hierarchies, method sets over the whole annotation algebra, calls and delegation scripts; "
    "inside every entered body each bound value is judged against a hand-written statement of the annotation's "
    "documented meaning. Sampled; soundness only (which method runs is C02/C10).",
    "Trusts vlib/spec.py's value semantics; unspecified verdicts are skipped and counted.",
    "property-based testing with an in-body soundness oracle (Hypothesis)",
    "DESIGN.md §4 C01",
)
check(
    "C04", "exploration",
    "Hypothesis call histories (2-40 calls with repetition, failures and nested delegation) on one function; each "
    "observation (outcome, winner, trace) is compared with the same call on a freshly built function. Sampled.",
    "Differential oracle: independent of any resolution model; assumes building a function is deterministic.",
    "history-based differential testing against a fresh build (Hypothesis)",
    "DESIGN.md §4 C04",
)
check(
    "C05", "exploration",
    "Hypothesis histories of register / re-register / unregister / call / resolve on an Ovld (both entry points) and "
    "of register / lookup on the public MultiTypeMap; every observation equals the same operation on a brand-new "
    "function / table built from the surviving registrations. Sampled.",
    "Survivor semantics (a replaced identical signature stays underneath) taken from the repo's own tests.",
    "stateful differential testing against a fresh build (Hypothesis)",
    "DESIGN.md §4 C05",
)

check(
    "C12", "exploration",
    "The full ordered pair table over a depth-2 universe of ~210 types (exhaustive for that universe), all triples "
    "over the class/generic fragment, plus Hypothesis-sampled deeper pairs; each pair checked for mirror symmetry, "
    "reflexivity and the listed structural laws. The mirror failures between two hook-owning combinators are a "
    "recorded known finding (F5); every other pair is asserted.",
    "Types are compared after ovld's own annotation normalisation; Whatever/All excluded as the property says.",
    "exhaustive pair/triple enumeration + Hypothesis sampling against algebraic laws",
    "DESIGN.md §4 C12",
)

check(
    "C10", "exploration",
    "Hypothesis-generated mixtures of Dependent / Literal / plain-class methods and corpus calls; outcome compared "
    "with the reference model restricted to methods whose condition holds, predicates log the values they are "
    "asked about (bound guard). Unspecified order comparisons are skipped (counted) with weaker facts still asserted. "
    "One recorded known finding (F20: a non-holding dependent method shields what it dominates).",
    "Trusts vlib/spec.py + vlib/model.py; predicates total on their bound by construction.",
    "property-based differential testing against a reference model with condition-filtered applicability",
    "DESIGN.md §4 C10",
)
check(
    "C13", "exploration",
    "Hypothesis-generated nested static types x corpus classes, applicability observed three ways (dispatch, "
    "subclasscheck, isinstance) against the hand-written documented meaning; Deferred against not-yet-imported "
    "scratch modules; exhaustive pair/triple tables for the subclasscheck laws over a fixed universe.",
    "Trusts vlib/spec.accepts_type; Exactly/StrictSubclass excluded from transitivity (non-monotone by meaning).",
    "property-based testing against documented type semantics + exhaustive law tables",
    "DESIGN.md §4 C13",
)

check(
    "C11", "exploration",
    "Hypothesis-generated value types (Literal of 1-5 mixed values, tuple/list/Sequence/Collection/Mapping/dict[...], "
    "Regexp, StartsWith, EndsWith, HasKey, & and |) with companion sets that steer the generated dispatcher onto its "
    "if-chain, table and counting paths; isinstance is compared with a hand-written documented meaning and dispatch "
    "with isinstance, for every corpus value. Sampled.",
    "Trusts vlib/spec.accepts for the documented meanings; equal values of a foreign type are unspecified.",
    "property-based differential testing (dispatch vs isinstance vs documented meaning), code-path steering",
    "DESIGN.md §4 C11",
)

check(
    "C07", "exploration",
    "Hypothesis-generated hierarchies and method sets in which every method delegates through call_next / f.next / "
    "recurse; scripts of up to 8 delegations with same or other arguments; each delegation step is compared with the "
    "reference chain (successive resolutions with the winner removed). Sampled.",
    "Plain-class annotations only (order fully specified); trusts vlib/model.chain.",
    "property-based differential testing of delegation traces against a reference chain model",
    "DESIGN.md §4 C07",
)
check(
    "C08", "exploration",
    "Hypothesis-generated derivation graphs (copies, variants, mixin fan-in) with recursive walkers and leaf methods, "
    "nested inputs, calls alternating between nodes; results compared structurally with a reference interpreter that "
    "re-enters the called node. Sampled.",
    "Effective method set = parents overlaid by own; conflicting signatures from two parents not asserted.",
    "property-based testing against a reference interpreter over function-derivation graphs",
    "DESIGN.md §4 C08",
)
check(
    "C16", "exploration",
    "Hypothesis histories over a graph of functions (root/copy/mixins/add_mixins/register/unregister/call, with and "
    "without linkback); every call and a final probe of every node equal a fresh function built from the model's "
    "effective method set; ancestors of used functions must refuse modification (non-linkback) or propagate it "
    "(linkback). Sampled.",
    "Calls are explicit operations (use locks ancestors); mixed linkback paths may refuse or propagate.",
    "stateful model-based testing with a fresh-build differential oracle (Hypothesis)",
    "DESIGN.md §4 C16",
)

check(
    "C14", "exploration",
    "Hypothesis-generated sets of type[...] / bare type / object / ordinary-class methods and passed type objects "
    "(classes, nested parametrised generics in builtin and typing spellings, typing.Any) and instances; outcome "
    "compared with a subtype-based reference model, plus a metamorphic check that removing every type[...] method "
    "never changes ordinary calls. Sampled.",
    "Unspecified comparisons (bare vs parametrised of the same origin, different origins, arity mismatch) skipped and counted.",
    "property-based differential testing against a subtype reference model + metamorphic relation",
    "DESIGN.md §4 C14",
)
check(
    "C15", "exploration",
    "Hypothesis-generated method sets in which one annotation is respelled in a listed equivalent form; both programs "
    "must produce identical outcome vectors over the call corpus. Sampled.",
    "Only the equivalences the property lists are respelled.",
    "metamorphic property-based testing (equivalent spellings => identical dispatch)",
    "DESIGN.md §4 C15",
)
check(
    "C17", "exploration",
    "Hypothesis-generated class hierarchies as source text (OvldBase/OvldMC roots, multiple bases, plain mixins, "
    "extend_super, priorities, recurse/call_next bodies); every class probed after its creation and after each later "
    "class, against a reference interpreter of the documented merge/extend/replace/inherit rules. Sampled.",
    "Undocumented shapes (several overloaded bases without extend_super, single undecorated definition, ...) not asserted.",
    "property-based testing against a reference interpreter over generated class hierarchies",
    "DESIGN.md §4 C17",
)

check(
    "C06", "exploration",
    "Hypothesis-generated cases executed under permuted registration order, harness-chosen iteration orders of "
    "ovld's internal sets (module-namespace shadowing), added non-applicable methods, and in fresh subprocesses with "
    "different hash seeds and allocation padding; outcome vectors must be identical. Order dependence between two "
    "hook-owning combinator/dependent annotations is a recorded consequence of F5.",
    "Every imposed order is one a real set could have; only kinds/winners compared.",
    "metamorphic property-based testing over configurations (order control + subprocess hash seeds)",
    "DESIGN.md §4 C06",
)
check(
    "C09", "exploration",
    "Hypothesis grammar over function bodies placing recurse / call_next in every listed expression context, in "
    "functions and methods; each body is registered twice (rewritten vs ordinary reference callables) and probe "
    "logs, results, exceptions, traceback lines, default/closure identity and generator laziness are compared. Sampled.",
    "Reference meaning of recurse / call_next as documented; both texts share the line layout.",
    "grammar-based differential testing of a source-to-source transformation (Hypothesis)",
    "DESIGN.md §4 C09",
)
check(
    "C20", "exploration",
    "Hypothesis histories over method sets annotated with counting class predicates and hook classes; a call that "
    "has already succeeded since the last change must consult zero hooks when repeated, including nested recurse / "
    "call_next. Sampled.",
    "Only user hooks are observable; plain-class work repeated per call is invisible.",
    "stateful property-based testing with instrumented user hooks as the oracle",
    "DESIGN.md §4 C20",
)

check(
    "C18", "fault_enumeration",
    "Fault enumeration: a BaseException injected (sys.settrace) at the k-th executed line of library / generated code "
    "during first-use build, rebuild after register and cache-miss resolution with a call_next chain - every k in the "
    "thorough tier (about 26 000 points over 8 generated method sets x 2 entry points), Hypothesis-sampled k plus a "
    "strided sweep in the quick tier - plus five kinds of invalid method at every registration position and user hooks "
    "raising on their n-th invocation; afterwards every probe through both entry points must equal a fresh function "
    "over the registered methods or be a configuration error.",
    "Faults strike at line boundaries of Python code only (not inside C calls; no process death); one fault per run.",
    "fault injection enumerated over executed source lines + property-based natural faults, fresh-build oracle",
    "DESIGN.md §4 C18",
)

check(
    "C19", "exploration",
    "A cooperative scheduler (sys.settrace: every executed line of library / generated code is a yield point) runs 2-3 "
    "worker threads under generated schedules over 7 racing scenarios (first calls, cache misses, call_next chains, "
    "dependent dispatchers, method access): all single-pre-emption schedules (thorough; every 5th in quick), sampled "
    "schedules with up to 3 pre-emptions, and auxiliary OS-thread stress; each thread's outcome and a probe set "
    "afterwards must equal the sequential outcome on a fresh function. Locks found on the objects under test are "
    "replaced by cooperative ones so that the schedule stays harness-owned.",
    "Line-granularity interleavings of library code with bounded pre-emptions; no bytecode-level, free-threaded or "
    "C-level races; only fully defined functions.",
    "schedule exploration with a harness-owned cooperative scheduler (exhaustive single pre-emptions + Hypothesis)",
    "DESIGN.md §4 C19",
)

ALL = [f"C{i:02d}" for i in range(1, 21)]
REASON_PENDING = "check not built yet in this revision of /verif (work in progress; see DESIGN.md §8)"


def main():
    checks = []
    for pid in ALL:
        if pid not in CHECKS:
            continue
        c = CHECKS[pid]
        mod = f"checks.c{pid[1:]}"
        checks.append({
            "property_id": pid,
            "quick_cmd": f"{PY} -m {mod} --tier quick",
            "thorough_cmd": f"{PY} -m {mod} --tier thorough",
            "evidence_file": f"/verif/evidence/{pid}.json",
            "replay_cmd_template": f"{PY} -m {mod} --replay {{path}}",
            "engine": "hypothesis+enumeration",
            "level_claimed": {"category": c["category"], "text": c["text"], "design_ref": c["design_ref"]},
            "level_note": c["note"],
            "technique": c["technique"],
        })
    na = [
        {"property_id": pid, "reason": NOT_APPLICABLE.get(pid, REASON_PENDING)}
        for pid in ALL if pid not in CHECKS
    ]
    manifest = {
        "version": 1,
        "setup_cmd": "sh tools/setup.sh",
        "hooks": {
            "guard": "OVLD_VERIF",
            "enable": "no source hooks are needed: the harness rebinds names in ovld's module namespaces at run time (DESIGN.md §2)",
            "baseline_off_cmd": "cd /repo && /venv/bin/python -m pytest -ra -q -p no:cacheprovider --timeout=900 --continue-on-collection-errors",
            "source_commits": [],
            "add_only": True,
        },
        "engines": [
            {"name": "hypothesis+enumeration", "path": "/verif/vlib", "serves_properties": sorted(CHECKS),
             "kind_free_text": "Hypothesis 6.168 strategies / rule-based state machines over JSON case specs, itertools enumeration of small finite spaces, 16-process sharding; explicit oracles (reference model, fresh-build differential, metamorphic relations)"},
        ],
        "checks": checks,
        "notes": "Every check: cwd=/verif, honours VERIF_SEED / VERIF_TIER / VERIF_REPO, exit 0/1/2 (2 = harness error). known_findings.json lists genuine defects (open or fixed).",
        "not_applicable": na,
    }
    with open(os.path.join(BASE, "MANIFEST.json"), "w") as f:
        json.dump(manifest, f, indent=1)
    print("wrote MANIFEST.json with", len(checks), "checks;", len(na), "not yet claimed")


if __name__ == "__main__":
    main()
