#!/bin/sh
# Offline set-up: the checks need /venv/bin/python (the interpreter the repo's tests use) with
# hypothesis.  It is normally already there; otherwise install it from the offline wheelhouse
# into /verif/.deps (vlib.boot appends that directory to sys.path).
set -e
cd "$(dirname "$0")/.."
if /venv/bin/python -c "import hypothesis" 2>/dev/null; then
  echo "hypothesis present in /venv"
else
  /venv/bin/pip install --no-index --find-links /opt/veriftools/wheels --target .deps hypothesis
fi
PYTHONPATH=.deps /venv/bin/python -c "import hypothesis; print('hypothesis', hypothesis.__version__)"
/venv/bin/python -c "from vlib import boot; import ovld; print('ovld from', ovld.__file__)"
