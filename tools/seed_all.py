#!/usr/bin/env python3
"""Re-evaluate every kept seeded defect (/verif/seeded/*) with the current checks and write seeded/SUMMARY.md."""
import json, os, subprocess, sys
VERIF = os.path.dirname(os.path.dirname(os.path.abspath(__file__)))
EXTRA = {"C02": ["C06", "C05", "C16"], "C04": ["C07"], "C05": ["C16"], "C07": ["C04", "C09", "C05", "C03", "C16"], "C08": ["C09", "C16", "C14"],
         "C10": ["C11", "C01"], "C01": ["C10", "C11", "C09"], "C11": ["C10"], "C12": ["C15"], "C13": ["C14"], "C14": ["C13", "C05", "C09"],
         "C15": ["C12"], "C16": ["C05"], "C17": ["C10", "C07", "C03"], "C19": ["C18"], "C03": ["C09", "C07"], "C06": ["C10", "C11"], "C20": ["C16"],
         "C09": ["C05", "C07"], "C18": ["C05"]}
rows = []
JOBS = int(sys.argv[sys.argv.index("--jobs") + 1]) if "--jobs" in sys.argv else 1


def evaluate(name):
    d = os.path.join(VERIF, "seeded", name)
    prop = next(t for t in name.split("_") if t.startswith("C") and t[1:].isdigit())
    checks = [prop] + EXTRA.get(prop, [])
    r = subprocess.run([sys.executable, os.path.join(VERIF, "tools", "seed_eval.py"), d, "--checks", ",".join(checks), "--keep-as", name],
                       capture_output=True, text=True)
    try:
        rep = json.loads(r.stdout)
    except Exception:
        rep = {"confirmed": None, "detected_by": None, "error": (r.stdout + r.stderr)[-300:]}
    meta = json.load(open(os.path.join(d, "meta.json")))
    print(name, rep.get("confirmed"), rep.get("detected_by"), rep.get("patch_error", ""), flush=True)
    return (name, prop, rep.get("confirmed"), rep.get("detected_by"), meta.get("summary", "")[:160].replace("\n", " "),
            meta.get("needs", "")[:200].replace("\n", " "))


from multiprocessing.pool import ThreadPool

names = [n for n in sorted(os.listdir(os.path.join(VERIF, "seeded"))) if os.path.isdir(os.path.join(VERIF, "seeded", n))]
with ThreadPool(JOBS) as tp:
    rows = tp.map(evaluate, names)
with open(os.path.join(VERIF, "seeded", "SUMMARY.md"), "w") as f:
    f.write("# Seeded defects (written by independent sub-agents from the property text only) and which checks detect them\n\n")
    f.write("| seed | property | confirmed (tests pass with it, demo fails with it, passes without) | detected by (quick tier, seeds 1,2) | change | needs |\n|---|---|---|---|---|---|\n")
    for row in rows:
        f.write("| " + " | ".join(str(x) for x in row) + " |\n")
