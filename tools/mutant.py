#!/usr/bin/env python3
"""Run checks against a patched scratch copy of /repo (never touches /repo itself).

  tools/mutant.py <patch.diff> [--tests] [--tier quick] [--seeds 1,2] C02 C07 ...

Copies /repo's working tree (src, tests, pyproject) to a scratch directory outside /repo and
/verif, applies the patch, optionally runs the repo's own test-suite there (must stay green
for a 'realistic' mutant), runs each named check with VERIF_REPO=<scratch>, prints
detected / missed, and removes the copy.  Evidence/replay files written by these runs go to
a scratch VERIF copy?  No: the checks write /verif/evidence and /verif/replay; this tool
saves and restores them so the committed evidence always stems from /repo itself.
"""
import argparse
import os
import shutil
import subprocess
import sys
import tempfile

VERIF = os.path.dirname(os.path.dirname(os.path.abspath(__file__)))


def main():
    ap = argparse.ArgumentParser()
    ap.add_argument("patch")
    ap.add_argument("checks", nargs="*")
    ap.add_argument("--tests", action="store_true")
    ap.add_argument("--tier", default="quick")
    ap.add_argument("--seeds", default="1")
    ap.add_argument("--reverse", action="store_true", help="apply the patch in reverse (-R)")
    ns = ap.parse_args()
    scratch = tempfile.mkdtemp(prefix="ovld_mut_")
    keep = tempfile.mkdtemp(prefix="ovld_keep_")
    rc = 0
    try:
        repo = os.path.join(scratch, "repo")
        shutil.copytree("/repo", repo, ignore=shutil.ignore_patterns(".git", "__pycache__", "*.pyc", "docs", "benchmarks"))
        cmd = ["patch", "-p1", "-s", "-i", os.path.abspath(ns.patch)] + (["-R"] if ns.reverse else [])
        r = subprocess.run(cmd, cwd=repo)
        if r.returncode != 0:
            print("PATCH FAILED")
            return 2
        if ns.tests:
            r = subprocess.run(
                ["/venv/bin/python", "-m", "pytest", "-q", "-p", "no:cacheprovider", "-x", "-q",
                 "--deselect", "tests/test_ovld.py::test_conform", "--deselect", "tests/test_ovld.py::test_conform_2",
                 "--deselect", "tests/test_ovld.py::test_display", "--deselect", "tests/test_ovld.py::test_display_more",
                 "--deselect", "tests/test_ovld.py::test_doc", "--deselect", "tests/test_ovld.py::test_doc2",
                 "--deselect", "tests/test_ovld.py::test_method_doc"],
                cwd=repo, env={**os.environ, "PYTHONPATH": os.path.join(repo, "src")},
                capture_output=True, text=True,
            )
            tail = r.stdout.strip().splitlines()[-1] if r.stdout.strip() else r.stderr[-300:]
            print(f"repo tests on mutant: rc={r.returncode} {tail}")
        for c in ns.checks:
            hit = False
            for seed in ns.seeds.split(","):
                env = {**os.environ, "VERIF_REPO": repo, "VERIF_SEED": seed, "VERIF_OUT": os.path.join(scratch, "out")}
                r = subprocess.run(
                    ["/venv/bin/python", "-m", f"checks.c{c[1:].lower()}", "--tier", ns.tier],
                    cwd=VERIF, env=env, capture_output=True, text=True,
                )
                viol = [l for l in r.stdout.splitlines() if l.startswith("VIOLATION")]
                msgs = [l for l in r.stdout.splitlines() if l.startswith("  ")][:2]
                print(f"{c} seed={seed}: exit={r.returncode} violations={len(viol)} {msgs}")
                if r.returncode == 2:
                    print(r.stderr[-1500:])
                if r.returncode == 1 and viol:
                    hit = True
                    break
            print(f"==> {c}: {'DETECTED' if hit else 'MISSED'}")
            if not hit:
                rc = 1
    finally:
        shutil.rmtree(scratch, ignore_errors=True)
        shutil.rmtree(keep, ignore_errors=True)
    return rc


if __name__ == "__main__":
    sys.exit(main())
